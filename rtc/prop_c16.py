"""C16 bounded stand-in, flat part: list(scfg) and the concealed view on ALL small digraphs whose blocks are reachable
from a unique head - including duplicate targets in one block (what the source front end emits for `if x: pass`),
self loops, targets outside the graph and declared back edges.  The hierarchy part (every level of every
restructured result) is in the shared CFG pass."""
from __future__ import annotations
import os
import sys

REPO = os.environ.get('VERIF_REPO', '/repo')
if REPO not in sys.path:
    sys.path.insert(0, REPO)
import logging  # noqa: E402
logging.disable(logging.CRITICAL)

from rtc.prop_c13 import space, graph_at   # noqa: E402


def check_flat(g, be):
    from numba_scfg.core.datastructures.scfg import SCFG
    from numba_scfg.core.datastructures.basic_block import BasicBlock
    from spec import hier
    s = SCFG({k: BasicBlock(k, v, be.get(k, ())) for k, v in g.items()})
    try:
        hier.iter_ok(s)
        hier.view_ok(s)
    except hier.Bad as b:
        return b.args[0]
    except Exception as e:
        return ('raises', type(e).__name__, str(e)[:100])
    return None


def in_scope(g, be):
    """exactly one block without (forward) predecessors, every block reachable from it along forward targets"""
    f = {k: [t for t in v if t not in be.get(k, ()) and t in g] for k, v in g.items()}
    heads = [k for k in g if not any(k in ts for ts in f.values())]
    if len(heads) != 1:
        return False
    seen, st = set(), [heads[0]]
    while st:
        x = st.pop()
        if x in seen:
            continue
        seen.add(x)
        st.extend(f[x])
    return len(seen) == len(g)


def work(args):
    n, maxdeg, start, stop = args
    out = {'graphs': 0, 'in_scope': 0, 'nontrivial': 0, 'dup_targets': 0, 'fails': [], 'samples': []}
    for idx in range(start, stop):
        g = graph_at(n, maxdeg, idx)
        out['graphs'] += 1
        variants = [{}]
        # one variant with a declared back edge on the first block that has a self loop or a target to an earlier block
        for k, v in g.items():
            tb = [t for t in v if t in g and t <= k]
            if tb:
                variants.append({k: (tb[0],)})
                break
        for be in variants:
            if not in_scope(g, be):
                continue
            out['in_scope'] += 1
            if any(len(v) > 0 for v in g.values()):
                out['nontrivial'] += 1
            if any(len(set(v)) < len(v) for v in g.values()):
                out['dup_targets'] += 1
            r = check_flat(g, be)
            if r is not None:
                out['fails'].append({'graph': {k: list(v) for k, v in g.items()}, 'backedges': {k: list(v) for k, v in be.items()}, 'kind': r[0],
                                     'detail': [str(x) for x in r[1:]]})
            elif len(out['samples']) < 1 and any(len(set(v)) < len(v) for v in g.values()):
                out['samples'].append({'graph': {k: list(v) for k, v in g.items()}, 'backedges': be})
    return out


def run(pool, tier, seed):
    tasks = []
    for n, maxdeg in ((1, 3), (2, 3), (3, 2)) + (((3, 3), (4, 2)) if tier != 'quick' else ()):
        names, ch = space(n, maxdeg)
        total = len(ch) ** n
        step = max(1, total // 32)
        tasks += [(n, maxdeg, s, min(total, s + step)) for s in range(0, total, step)]
    res = pool.map(work, tasks, chunksize=1)
    d = {k: sum(r[k] for r in res) for k in ('graphs', 'in_scope', 'nontrivial', 'dup_targets')}
    d['fails'] = [f for r in res for f in r['fails']]
    d['samples'] = [s for r in res for s in r['samples']][:2]
    return d
