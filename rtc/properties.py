"""Per-property drivers: proof part (E1), finite part (E3), bounded stand-in (E2)."""
from __future__ import annotations
import json
import os
import time

from vcheck import run_e1, run_fuzz, write_replay, tree_hash, CACHE_DIR

CHECKS = {}
REPLAYERS = {}
CHECKER_CMD = './vcheck <id> --tier <tier>  (pyvc: ast -> VCs -> z3 5.1 via the Python API, one query per obligation part)'
TRUSTED = ['z3 5.1 (unsat answers)', 'pyvc VC generator (canaries, run-time evaluation of the same contract text, mutation self-test)',
           'CPython 3.12 semantics as encoded (DESIGN 2.2)']


# ------------------------------------------------------------------ the shared CFG pass
def cfg_pass(pool, tier, seed):
    from rtc import cfgpass
    os.makedirs(CACHE_DIR, exist_ok=True)
    key = '%s-%s-%d' % (tree_hash(), tier, seed)
    path = os.path.join(CACHE_DIR, 'cfgpass-%s.json' % key)
    if os.path.exists(path):
        with open(path) as fh:
            d = json.load(fh)
        d['cached'] = True
        return d
    t0 = time.time()
    nmax = 4 if tier == 'quick' else 5
    tasks = []
    for n in range(1, nmax + 1):
        raw = cfgpass.raw_count(n)
        step = max(1, raw // (64 if n < 5 else 512))
        for s in range(0, raw, step):
            tasks.append((n, s, min(raw, s + step), 'plain'))
    res = pool.map(cfgpass.work_chunk, tasks, chunksize=1)
    rnd = []
    if tier == 'quick':
        rnd = [(n, 60, seed * 17 + i, 'plain') for i, n in enumerate((9, 10, 11, 12, 13, 14, 16, 18))]
        rnd += [(n, 150, seed * 17 + 50 + i, 'plain') for i, n in enumerate((5, 5, 6, 6, 7, 7, 8, 8))]
        rnd += [(n, 100, seed * 17 + 70 + i, 'plain3') for i, n in enumerate((4, 5, 6, 7))]
        rnd += [(n, 40, seed * 17 + 100 + i, p) for i, (n, p) in enumerate(((4, 'bytecode'), (6, 'bytecode'), (8, 'bytecode'), (4, 'ast'), (6, 'ast'), (8, 'ast')))]
    else:
        rnd = [(n, 300, seed * 17 + i, 'plain') for i, n in enumerate((5, 6, 7, 8, 9, 10, 11, 12, 13, 14, 15, 16, 17, 18) * 2)]
        rnd += [(n, 200, seed * 17 + 100 + i, p) for i, (n, p) in enumerate(((4, 'bytecode'), (6, 'bytecode'), (8, 'bytecode'), (4, 'ast'), (6, 'ast'), (8, 'ast')))]
        rnd += [(n, 400, seed * 17 + 70 + i, 'plain3') for i, n in enumerate((4, 5, 6, 7, 8, 9))]
    res2 = pool.map(cfgpass.work_random, rnd, chunksize=1)
    d = {'exhaustive_nmax': nmax, 'closed_exhaustive': sum(r['closed'] for r in res), 'nontrivial_exhaustive': sum(r['nontrivial'] for r in res),
         'random': sum(r['closed'] for r in res2), 'nontrivial_random': sum(r['nontrivial'] for r in res2),
         'fails': [], 'samples': [], 'wall': 0, 'random_sizes': sorted({t[0] for t in rnd}), 'cached': False}
    cc = {}
    for r in list(res) + list(res2):
        for k, v in r.get('call_counts', {}).items():
            cc[k] = cc.get(k, 0) + v
    d['call_counts'] = cc
    for r in list(res) + list(res2):
        d['fails'] += r['fails']
        if r['samples'] and len(d['samples']) < 4:
            d['samples'].append(r['samples'][0])
    d['wall'] = round(time.time() - t0, 1)
    with open(path, 'w') as fh:
        json.dump(d, fh)
    return d


def report_known(prop, verdict):
    """Proof-region findings: replay the recorded witness; the KNOWN-FINDING line is printed only while it still fails."""
    from vcheck import load_known
    import contracts  # noqa
    from rtc.fuzz import replay
    out = []
    for f in load_known().get('findings', []):
        if f['property'] != prop or f.get('kind') != 'proof-region':
            continue
        w = f['witness']
        try:
            o = replay(w['qual'], w['args'], ignore_known=True)
        except Exception as e:   # the witness no longer applies (signature changed ...)
            out.append('%s: witness not replayable (%r)' % (f['id'], e))
            continue
        if o.kind == 'fail':
            verdict.known.append('%s %s [region: %s] witness still fails: %s' % (f['id'], f['what'], f['region'], str(o.detail)[:160]))
            out.append('%s still fails' % f['id'])
        else:
            out.append('%s witness no longer fails' % f['id'])
    return out


def cfg_property(explanation, extra_assumptions=(), level='other'):
    def run(prop, pool, verdict, tier, seed):
        e1 = run_e1(prop, pool, verdict, tier, seed)
        known = report_known(prop, verdict)
        fz = run_fuzz(prop, pool, verdict, tier, seed)
        d = cfg_pass(pool, tier, seed)
        mine = [f for f in d['fails'] if f['prop'] == prop]
        by_sig = {}
        for f in mine:
            by_sig.setdefault((f['stage'], f['kind']), []).append(f)
        for (stage, kind), fs in sorted(by_sig.items()):
            f = min(fs, key=lambda x: (x['n'], str(x['graph'])))
            rp = write_replay(prop, 'cfg-%s-%s' % (stage, kind), {'kind': 'cfg-pipeline', 'property': prop, 'graph': f['graph'],
                                                                  'stage': stage, 'check': kind, 'detail': f['detail'],
                                                                  'failing_inputs_in_scope': len(fs)})
            verdict.violation(rp)
        cov = coverage_from(e1, fz, explanation)
        cov['evaluations'] = d['closed_exhaustive'] + d['random'] + fz['evaluations']
        cov['distinct_nontrivial'] = d['nontrivial_exhaustive'] + d['nontrivial_random']
        cov['rule'] = ('all labelled closed CFGs with <= %d nodes (<= 2 ordered distinct successors, one entry, all reachable, all reach an exit), '
                       'each run through the stage prefixes join / join+loop / join+loop+branch with the property contract evaluated after every stage; '
                       'plus %d seeded random closed CFGs of sizes %s incl. bytecode/AST payloads (and, for C03 only, graphs with three-way input blocks); non-trivial = has a cycle or a two-way block; '
                       'plus run-time evaluation of the function contracts on %d generated calls'
                       % (d['exhaustive_nmax'], d['random'], d['random_sizes'], fz['evaluations']))
        cov['exhaustive'] = True
        cov['exhaustive_scope'] = 'closed CFGs with <= %d nodes (%d graphs)' % (d['exhaustive_nmax'], d['closed_exhaustive'])
        cov['samples'] = cov.get('samples', []) + [{'closed_cfg': s} for s in d['samples'][:3]]
        cov['bounded_pass_wall_s'] = d['wall']
        cov['bounded_pass_cached'] = d['cached']
        cov['known_findings'] = known
        cov['internal_call_contract_evaluations'] = d.get('call_counts', {})
        if prop == 'C14' and not d.get('call_counts', {}).get('SCFG.insert_block'):
            verdict.errors.append('the run-time contract wrapper of SCFG.insert_block was never evaluated (bypassed?)')
        return level, cov, list(extra_assumptions) + e1['assumptions']
    return run


def coverage_from(e1, fz, explanation):
    cov = {
        'explanation': explanation,
        'obligations': e1['obligations'], 'discharged': e1['discharged'],
        'checker_cmd': CHECKER_CMD, 'trusted_base': TRUSTED,
        'functions_under_contract': e1['functions'],
        'solver_seconds_total': round(e1['solver_s'], 2), 'solver_seconds_max': round(e1['max_s'], 2),
        'backend': 'z3 5.1 (Python API); portfolio: mbqi off / default / second seed',
        'undecided_obligations': e1['undecided'],
        'termination_not_proved_for_loops': e1['unproved_termination'],
        'function_level_runtime_contract_evaluations': fz['evaluations'],
        'samples': list(e1['samples'][:4]) + fz['samples'][:2],
    }
    return cov


PROVED_NOTE = ('Proved part (unbounded, every input): the obligations of the listed functions, generated from the current source by pyvc and '
               'discharged by z3. Bounded part (never counted as proved): the property-level contract evaluated on the real pipeline over the '
               'enumerated scope. ')

CHECKS['C01'] = cfg_property(PROVED_NOTE + 'C01: path_equiv(original, result) by exhaustive product exploration (original block x walker state x '
                             'control valuation x consumed-variable sets) for the walk by name (W1) and the walk by region (W2) after every stage prefix; '
                             'the per-arc preservation argument rests on the proved contracts of insert_block / SyntheticBranch.replace_jump_targets.')
CHECKS['C02'] = cfg_property(PROVED_NOTE + 'C02: no exception and CPU-time limit per graph at every stage; proved: every noraise obligation '
                             '(assert, subscript, index, next(iter)) of the contracted functions, in particular SyntheticBranch.replace_jump_targets '
                             'under the callers\' precondition.')
CHECKS['C03'] = cfg_property('Bounded only at property level: structured(H) evaluated on every fully restructured result. ' + PROVED_NOTE)
CHECKS['C04'] = cfg_property(PROVED_NOTE + 'C04: WF(H) (unique names, scoped resolution of every target/back edge, header/exiting inside, leaves only '
                             'from exiting, region targets == exiting block\'s outgoing targets, recorded parent) after every stage; proved: value-level '
                             'frame/key invariants of the edit primitives.')
CHECKS['C05'] = cfg_property(PROVED_NOTE + 'C05: conserved(original blocks, result) after every stage with plain, bytecode and AST payloads; proved: '
                             'frames of the edit primitives (replace is a functional update that keeps class tag and all other fields).')
CHECKS['C06'] = cfg_property(PROVED_NOTE + 'C06: table invariant on every SyntheticBranch of every result and assigned-before-use / in-range on every '
                             'reachable (block, valuation) of the product exploration; proved: the invariant is preserved by '
                             'SyntheticBranch.replace_jump_targets (table_ok, renamed_table).')
_c16_cfg = cfg_property('Bounded only: list(scfg) and the concealed view of every level of every result compared with the hierarchy; plus the same '
                        'two checks on all small flat digraphs with duplicate targets, self loops, outside targets and declared back edges. ' + PROVED_NOTE)


def c16(prop, pool, verdict, tier, seed):
    from rtc import prop_c16
    level, cov, assumptions = _c16_cfg(prop, pool, verdict, tier, seed)
    d = prop_c16.run(pool, tier, seed)
    by_kind = {}
    for f in d['fails']:
        by_kind.setdefault(f['kind'], []).append(f)
    for kind, fs in sorted(by_kind.items()):
        f = min(fs, key=lambda x: (len(x['graph']), str(x['graph'])))
        rp = write_replay(prop, 'flat-%s' % kind, {'kind': 'flat-digraph', 'property': prop, 'graph': f['graph'], 'backedges': f['backedges'],
                                                   'check': kind, 'detail': f['detail'], 'failing_inputs_in_scope': len(fs)})
        verdict.violation(rp)
    cov['flat_digraphs'] = {k: d[k] for k in ('graphs', 'in_scope', 'nontrivial', 'dup_targets')}
    cov['evaluations'] += d['in_scope']
    cov['distinct_nontrivial'] += d['nontrivial']
    cov['rule'] += ('; plus all flat digraphs (1-3 nodes, out-degree <= 3/3/2, duplicate targets, self loops, one outside name, optional declared back edge) '
                    'with a unique head from which every block is reachable: %d graphs, %d of them with a duplicated target' % (d['in_scope'], d['dup_targets']))
    cov['samples'] = cov.get('samples', []) + [{'flat_digraph': x} for x in d['samples'][:1]]
    return level, cov, assumptions


def replay_flat(r):
    from rtc import prop_c16
    bad = prop_c16.check_flat({k: tuple(v) for k, v in r['graph'].items()}, {k: tuple(v) for k, v in r['backedges'].items()})
    if bad is not None:
        print('REPRODUCED flat digraph %s: %s' % (r['graph'], bad))
        return 1
    print('not reproduced')
    return 0


REPLAYERS['flat-digraph'] = replay_flat
CHECKS['C16'] = c16

CHECKS['C14'] = cfg_property(PROVED_NOTE + 'C14: all value-level clauses of insert_block (+4 typed wrappers), add_block, remove_blocks and '
                             'SyntheticBranch.replace_jump_targets are proved; the hierarchy clause for region predecessors and edit sequences are '
                             'covered by the bounded pass (path equivalence after every stage = sequences of the real edits).')


def c13(prop, pool, verdict, tier, seed):
    from rtc import prop_c13
    e1 = run_e1(prop, pool, verdict, tier, seed)
    fz = run_fuzz(prop, pool, verdict, tier, seed)
    d = prop_c13.run(pool, tier, seed)
    by = {}
    for f in d['fails']:
        by.setdefault(f['query'], []).append(f)
    for q, fs in sorted(by.items()):
        f = min(fs, key=lambda x: (len(x['graph']), str(x['graph'])))
        rp = write_replay(prop, 'digraph-' + q, {'kind': 'digraph-query', 'property': prop, 'query': q, 'graph': f['graph'],
                                                 'backedges': f['backedges'], 'detail': f['detail'], 'failing_inputs_in_scope': len(fs)})
        verdict.violation(rp)
    cov = coverage_from(e1, fz, PROVED_NOTE + 'C13: find_head, find_headers_and_entries (top-level graphs), find_exiting_and_exits, is_reachable_dfs '
                        '(with the closure principle R-ind instantiated at the loop head), exclude_blocks, jump_targets/is_exiting are proved equal to their '
                        'definitions; compute_scc/scc, the dominator helpers and _imm_doms are compared with brute-force definitions on the enumerated digraphs (bounded).')
    cov['evaluations'] = d['graphs'] + fz['evaluations']
    cov['distinct_nontrivial'] = d['nontrivial']
    cov['rule'] = ('all maps from n nodes to target tuples over the nodes plus one external name (self loops, duplicates, external targets), without and with one '
                   'declared back edge, every subset for the subset queries, every (node, name) pair for reachability; scope: %s; plus the subset queries on every nested '
                   'level of %d restructured closed CFGs (sub-graphs whose edges leave the graph); non-trivial = has at least one edge'
                   % (json.dumps(d['scope']), d.get('nested_graphs', 0)))
    cov['exhaustive'] = d['exhaustive']
    cov['samples'] = cov['samples'] + d['samples'][:2]
    return 'other', cov, e1['assumptions'] + ['axiom R-ind (closure principle of reachability) is assumed, instantiated with the `seen` set of is_reachable_dfs']


def replay_digraph(r):
    from rtc import prop_c13
    if r['query'].endswith('-nested'):
        bad = prop_c13.check_nested({k: tuple(v) for k, v in r['graph'].items()})
        print('replay nested query on %s: %d mismatches %s' % (r['graph'], len(bad), str(bad[:1])[:300]))
        return 1 if bad else 0
    bad = [b for b in prop_c13.check_digraph({k: tuple(v) for k, v in r['graph'].items()}, {k: tuple(v) for k, v in r['backedges'].items()})
           if b[0] == r['query']]
    print('replay digraph query %s on %s: %d mismatches %s' % (r['query'], r['graph'], len(bad), str(bad[:1])[:300]))
    return 1 if bad else 0


CHECKS['C13'] = c13
REPLAYERS['digraph-query'] = replay_digraph


def c09(prop, pool, verdict, tier, seed):
    from fin import opcodes
    from rtc import prop_c09
    e1 = run_e1(prop, pool, verdict, tier, seed)
    fz = run_fuzz(prop, pool, verdict, tier, seed)
    e3 = opcodes.check()
    for f in e3['failures']:
        rp = write_replay(prop, 'opcode-%s-%s' % (f['opname'], f['clause']),
                          {'kind': 'opcode-table', 'property': prop, 'obligation': 'utils.opcode-tables::class[%s]' % f['opname'], 'detail': f})
        verdict.violation(rp)
    d = prop_c09.run(pool, tier, seed)
    by = {}
    for f in d['fails']:
        by.setdefault(f['kind'], []).append(f)
    for k, fs in sorted(by.items()):
        rp = write_replay(prop, 'corpus-' + k, {'kind': 'bytecode-corpus', 'property': prop, 'check': k, 'origin': fs[0]['origin'],
                                                'detail': fs[0]['detail'], 'failing_inputs_in_scope': len(fs)})
        verdict.violation(rp)
    cov = coverage_from(e1, fz, PROVED_NOTE + 'C09: E3 (complete for the running interpreter): the library\'s classification of every real opcode equals the '
                        'class derived from dis.hasjrel/hasjabs and the opcode name, and unconditional/returning opcodes have no inline cache entries. '
                        'Bounded: ByteFlow.from_bytecode on a corpus of standard-library code objects against an independently computed leader/partition/successor '
                        'ground truth (also validates the dis assumptions WFdis).')
    cov['obligations'] += e3['obligations']
    cov['discharged'] += e3['discharged']
    cov['finite_domain'] = {'domain': e3['domain'], 'python': e3['python'], 'backend': 'finite-enumeration', 'obligations': e3['obligations']}
    cov['evaluations'] = d['in_domain'] + fz['evaluations']
    cov['distinct_nontrivial'] = d['nontrivial']
    cov['rule'] = ('code objects (functions, methods, nested code) of %d standard-library modules plus hand-written functions covering each in-domain jump/return '
                   'opcode; in domain = no exception table, no generator/coroutine flag, no raise/yield/with opcode; non-trivial = contains a jump opcode; '
                   '%d collected, %d in domain; jump/return opcodes met: %s' % (len(prop_c09.MODULES), d['code_objects'], d['in_domain'], d['opnames']))
    cov['exhaustive'] = False
    cov['samples'] = cov['samples'] + e3['samples'][:3] + d['samples']
    return 'other', cov, e1['assumptions'] + [
        'WFdis: dis.Bytecode yields strictly increasing even offsets, argval of a jump is an instruction offset of the same stream, is_jump_target marks exactly the jump targets (validated on the corpus, not proved)',
        'A-uncond: the unconditional jumps are the opcodes named JUMP_FORWARD/JUMP_BACKWARD/JUMP_ABSOLUTE(_NO_INTERRUPT)',
        'only the running interpreter (3.12) is covered; no 3.11 interpreter is installed']


def replay_opcode(r):
    from fin import opcodes
    e3 = opcodes.check()
    bad = [f for f in e3['failures'] if f['opname'] == r['detail']['opname']]
    print('replay opcode table: %s' % bad)
    return 1 if bad else 0


def replay_corpus(r):
    from rtc import prop_c09
    for origin, co in prop_c09.code_objects():
        if origin == r['origin']:
            res = prop_c09.check_code(co)
            print('replay %s: %s' % (origin, res))
            return 1 if res else 0
    print('code object not found')
    return 3


CHECKS['C09'] = c09
REPLAYERS['opcode-table'] = replay_opcode
REPLAYERS['bytecode-corpus'] = replay_corpus


def c11(prop, pool, verdict, tier, seed):
    from fin import stmt_dispatch
    from rtc import prop_c11
    e1 = run_e1(prop, pool, verdict, tier, seed)
    fz = run_fuzz(prop, pool, verdict, tier, seed)
    e3 = stmt_dispatch.check()
    for f in e3['failures']:
        rp = write_replay(prop, 'dispatch-' + f['clause'], {'kind': 'stmt-dispatch', 'property': prop,
                                                             'obligation': 'AST2SCFGTransformer.handle_ast_node::' + f['clause'], 'detail': f})
        verdict.violation(rp)
    for u in e3.get('undecided', []):
        verdict.undecided.append('obligation=AST2SCFGTransformer.' + u)
    d = prop_c11.run(pool, tier, seed)
    by = {}
    for f in d['fails']:
        by.setdefault(f['case'].split('@')[0] + ':' + f['kind'], []).append(f)
    for k, fs in sorted(by.items()):
        rp = write_replay(prop, 'placement-' + k, {'kind': 'placement', 'property': prop, 'case': fs[0]['case'], 'source': fs[0]['source'],
                                                   'observed': fs[0]['kind'], 'detail': fs[0]['detail'], 'failing_inputs_in_scope': len(fs)})
        verdict.violation(rp)
    cov = coverage_from(e1, fz, 'C11 is decided by a finite, complete case split (E3): the dispatcher\'s if-chain is read from the current source, checked to consist of '
                        'isinstance(node, ast.X) tests ending in `raise NotImplementedError`, and evaluated against the real class lattice for EVERY subclass of ast.stmt '
                        'of the running interpreter; every compound handler hands every statement-list field to codegen unconditionally (structural descent), which with '
                        'structural induction over the tree gives "at any nesting depth" (the induction is stated, not mechanised); each class is also executed on the real '
                        'dispatcher. Bounded: the placement matrix (statement kind x 13 structural positions) and non-function inputs run through AST2SCFG.')
    cov['obligations'] += e3['obligations']
    cov['discharged'] += e3['discharged']
    cov['finite_domain'] = {'domain': e3['domain'], 'python': e3['python'], 'backend': 'finite-enumeration', 'obligations': e3['obligations']}
    cov['evaluations'] = d['cases'] + fz['evaluations']
    cov['distinct_nontrivial'] = d['cases']
    cov['rule'] = 'every unsupported statement kind expressible in source x {top, if body, else, while body, for body, loop else, after loop, nested two deep, last statement} plus 11 non-function inputs; every case is distinct and non-trivial (contains a compound or unsupported construct)'
    cov['exhaustive'] = True
    cov['samples'] = cov['samples'] + e3['samples'][:3] + d['samples'][:2]
    return 'other', cov, e1['assumptions'] + ['the dispatch depends on the node only through the isinstance tests read from the source (checked structurally)',
                                             'structural induction over the statement tree is stated, not mechanised',
                                             'ast.parse of the f-string snippets in handle_for does not raise for a valid target']


def replay_placement(r):
    from rtc import prop_c11
    res = prop_c11.check_case(r['case'], r['source'])
    print('replay placement %s: %s' % (r['case'], res))
    return 1 if res else 0


def replay_dispatch(r):
    from fin import stmt_dispatch
    bad = [f for f in stmt_dispatch.check()['failures'] if f['clause'] == r['detail']['clause']]
    print('replay dispatch: %s' % bad)
    return 1 if bad else 0


CHECKS['C11'] = c11
REPLAYERS['placement'] = replay_placement
REPLAYERS['stmt-dispatch'] = replay_dispatch


def c18(prop, pool, verdict, tier, seed):
    from fin import name_lemmas
    from rtc import prop_c18
    from vcheck import load_known
    e1 = run_e1(prop, pool, verdict, tier, seed)
    fz = run_fuzz(prop, pool, verdict, tier, seed)
    lem = name_lemmas.check()
    for f in lem['failures']:
        rp = write_replay(prop, 'lemma-' + f['obligation'], {'kind': 'obligation-only', 'property': prop, 'obligation': f['obligation'],
                                                             'solver': {'backend': 'cvc5 --strings-exp', 'detail': f['detail']}})
        verdict.violation(rp, 'no-failing-input-found')
    for u in lem.get('undecided', []):
        verdict.undecided.append('obligation=%s reason=%s' % (u['obligation'], u['detail'][:200]))
    d = prop_c18.run(pool, tier, seed)
    by = {}
    for f in d['fails']:
        by.setdefault(f['what'] + ':' + f['detail']['kind'], []).append(f)
    for k, fs in sorted(by.items()):
        rp = write_replay(prop, 'names-' + k, dict(fs[0], kind='names', property=prop, failing_inputs_in_scope=len(fs)))
        verdict.violation(rp)
    known = []
    for f in load_known().get('findings', []):
        if f['property'] == prop and f.get('kind') == 'bounded-region':
            res, inK, _ = prop_c18.pipeline_case({k: tuple(v) for k, v in f['witness']['graph'].items()})
            if res:
                verdict.known.append('%s %s [region: %s] witness still fails: %s' % (f['id'], f['what'], f['region'], str(res[0])[:120]))
                known.append(f['id'] + ' still fails')
            else:
                known.append(f['id'] + ' witness no longer fails')
    cov = coverage_from(e1, fz, PROVED_NOTE + 'C18: the three NameGenerator methods are proved to return exactly name(kind, counter) and to advance exactly that counter '
                        '(functional contract over uninterpreted concat/str); the string facts - each name shape is injective in (kind, index) and the three shapes are pairwise '
                        'disjoint - are lemmas over the shapes read from the current source, discharged by cvc5 on the theory of strings (digits abstracted by A-str). '
                        'Freshness then follows: a name with index = counter was never issued. Bounded: all histories of requests over 3 methods x 5 kinds x {graph, sub-graph '
                        'handle} up to the length bound on a shared generator; every name handed out while the real pipeline runs on the enumerated closed CFGs is checked, at the '
                        'moment it is returned, against every name issued so far and every name present in the hierarchy; NG_inv after every stage.')
    cov['obligations'] += lem['obligations']
    cov['discharged'] += lem['discharged']
    cov['string_lemmas'] = {'backend': 'cvc5 1.0.3 --strings-exp', 'shapes': lem['shapes'], 'obligations': lem['obligations']}
    cov['evaluations'] = d['cases'] + fz['evaluations']
    cov['distinct_nontrivial'] = d['nontrivial']
    cov['rule'] = ('request histories: every sequence of length <= %d over (method, kind, handle) with kinds %s; pipelines: every closed CFG with <= %d nodes, once with '
                   'names "0".."n-1" and (n<=4) once with two blocks renamed into the generator\'s namespace (known-finding region R11: %d graphs, %d of them clobbered); '
                   '%d names handed out and checked; non-trivial = history longer than 1 / graph with a cycle or branch'
                   % (3 if tier == 'quick' else 4, prop_c18.KINDS, 4 if tier == 'quick' else 5, d['known_region'], d['known_region_fails'], d['names_issued']))
    cov['exhaustive'] = True
    cov['samples'] = cov['samples'] + lem['samples'][:2] + d['samples'][:2]
    cov['known_findings'] = known
    return 'other', cov, e1['assumptions'] + ['A-str: str(i) for i >= 0 is a non-empty digit string, injective in i (validated for i < 20000)',
                                             'concat / str are uninterpreted in the z3 part; the string lemmas are proved separately by cvc5 for the shapes read from the source',
                                             'reload histories (write/read between stages) are exercised by the C15 check once serialisation accepts restructured graphs']


def replay_names(r):
    from rtc import prop_c18
    if r.get('what') == 'front-end':
        res = prop_c18.front_end_cases()
    elif r.get('what') == 'history':
        res = prop_c18.history_ok([tuple(x) for x in r['history']])
    else:
        res, _, _ = prop_c18.pipeline_case({k: tuple(v) for k, v in r['graph'].items()}, r.get('rename'))
    print('replay names: %s' % (res,))
    return 1 if res else 0


CHECKS['C18'] = c18
REPLAYERS['names'] = replay_names


def c12(prop, pool, verdict, tier, seed):
    from rtc import prop_c12
    e1 = run_e1(prop, pool, verdict, tier, seed)
    fz = run_fuzz(prop, pool, verdict, tier, seed)
    d = prop_c12.run(pool, tier, seed)
    if d.get('error'):
        verdict.errors.append(d['error'])
        d = {'inputs': 0, 'nontrivial': 0, 'hash_seeds': 0, 'fails': [], 'samples': []}
    for f in d['fails'][:3]:
        rp = write_replay(prop, 'hashseed-%s' % f['input'][0], {'kind': 'hash-seed', 'property': prop, 'input': f['input'], 'values': f['values'],
                                                               'failing_inputs_in_scope': len(d['fails'])})
        verdict.violation(rp)
    cov = coverage_from(e1, fz, PROVED_NOTE + 'C12: the functions whose result is a sorted list or an exact generated name (find_headers_and_entries, find_exiting_and_exits, '
                        'NameGenerator.*) are proved against FUNCTIONAL postconditions under an encoding in which every loop over a set or dict may visit the elements in ANY order '
                        '(ghost processed-subset, arbitrary next element) - a function proved this way returns the same value under every hash seed. The whole-pipeline claim is a '
                        '2-safety property over processes and is bounded: canonical dumps (sensitive to names, nesting, target order, tables, dict insertion order, generator '
                        'counters) and regenerated source compared across separate processes with different PYTHONHASHSEED.')
    cov['evaluations'] = d['inputs'] * max(d['hash_seeds'], 1) + fz['evaluations']
    cov['distinct_nontrivial'] = d['nontrivial']
    cov['rule'] = ('inputs: every closed CFG with <= 3 nodes, seeded random closed CFGs of 4..12 nodes, %d source functions (graph before/after restructuring and regenerated text) and '
                   '3 bytecode functions; each run in %d separate processes with different PYTHONHASHSEED; non-trivial = graph with a cycle or branch / any function'
                   % (len(prop_c12.SOURCES), d['hash_seeds']))
    cov['exhaustive'] = False
    cov['samples'] = cov['samples'] + d['samples']
    return 'other', cov, e1['assumptions'] + ['equality between processes is checked only for the sampled inputs and seeds; sorted() anchors inside tier-B functions are not proved']


def replay_hashseed(r):
    from rtc import prop_c12
    d = prop_c12.run(None, 'quick', 0)
    print('replay hash-seed comparison: %d inputs differ across seeds' % len(d.get('fails', [])))
    return 1 if d.get('fails') else 0


CHECKS['C12'] = c12
REPLAYERS['hash-seed'] = replay_hashseed


def c15(prop, pool, verdict, tier, seed):
    from fin import registry
    from rtc import prop_c15
    from vcheck import load_known
    e1 = run_e1(prop, pool, verdict, tier, seed)
    fz = run_fuzz(prop, pool, verdict, tier, seed)
    e3 = registry.check()
    for f in e3['failures']:
        rp = write_replay(prop, 'registry-' + f['clause'], {'kind': 'registry', 'property': prop, 'obligation': 'SCFGIO::' + f['clause'], 'detail': f})
        verdict.violation(rp)
    d = prop_c15.run(pool, tier, seed)
    by = {}
    for f in d['fails']:
        by.setdefault(f['stage'] + ':' + f['kind'], []).append(f)
    for k, fs in sorted(by.items()):
        f = min(fs, key=lambda x: (len(str(x['graph'])), str(x['graph'])))
        rp = write_replay(prop, 'roundtrip-' + k, {'kind': 'roundtrip', 'property': prop, 'graph': f['graph'], 'payload': f.get('payload', 'plain'),
                                                   'stage': f['stage'], 'check': f['kind'], 'detail': f['detail'], 'failing_inputs_in_scope': len(fs)})
        verdict.violation(rp)
    known = []
    for f in load_known().get('findings', []):
        if f['property'] == prop and f.get('kind') == 'bounded-region':
            try:
                from numba_scfg.core.datastructures.ast_transforms import AST2SCFG
                AST2SCFG(f['witness']['source']).to_dict()
                known.append(f['id'] + ' witness no longer fails')
            except Exception as e:
                verdict.known.append('%s %s [region: %s] witness still fails: %r' % (f['id'], f['what'], f['region'], e))
                known.append(f['id'] + ' still fails')
    cov = coverage_from(e1, fz, 'C15: E3 (complete over the block classes): every class defined in basic_block.py is registered (or never instantiated / a recorded finding) and an '
                        'instance with non-default values in every field survives to_dict -> from_dict -> to_dict unchanged. Bounded: dictionary and YAML round trips and '
                        'write-read-write-read chains of every enumerated closed CFG at the four stage prefixes (input, join, +loop, +branch), field-by-field comparison of ordered '
                        'successors, back edges, tables, assignments, nesting, headers, exiting blocks, parents; plus bytecode graphs. to_dict/from_dict themselves are tier B '
                        '(work-list over a heterogeneous hierarchy, yaml): no deductive contract is within reach.')
    cov['obligations'] += e3['obligations']
    cov['discharged'] += e3['discharged']
    cov['finite_domain'] = {'domain': e3['domain'], 'backend': 'finite-enumeration', 'obligations': e3['obligations'], 'known_unregistered': e3['known_unregistered']}
    cov['evaluations'] = d['roundtrips'] + fz['evaluations']
    cov['distinct_nontrivial'] = d['nontrivial']
    cov['rule'] = ('every closed CFG with <= %d nodes and seeded random ones up to 12/18 nodes (every third with bytecode payload), each written and re-read at 4 stage prefixes as dict and '
                   'as YAML, plus 3 bytecode functions before/after restructuring; %d graphs; non-trivial = cycle or branch' % (d['exhaustive_nmax'], d['graphs']))
    cov['exhaustive'] = True
    cov['samples'] = cov['samples'] + e3['samples'][:2] + d['samples'][:2]
    cov['known_findings'] = known
    return 'other', cov, e1['assumptions'] + ['yaml.safe_load trusted', 'block names restricted to those the generator and front ends produce (digits, identifiers)']


def replay_roundtrip(r):
    from rtc import prop_c15
    if isinstance(r['graph'], str):
        fs = [f for n, ff in prop_c15.bytecode_cases() for f in ff]
    else:
        fs = prop_c15.check_graph({k: tuple(v) for k, v in r['graph'].items()}, r.get('payload', 'plain'))
    print('replay round trip: %s' % fs[:2])
    return 1 if fs else 0


def replay_registry(r):
    from fin import registry
    bad = [f for f in registry.check()['failures'] if f['clause'] == r['detail']['clause']]
    print('replay registry: %s' % bad)
    return 1 if bad else 0


CHECKS['C15'] = c15
REPLAYERS['roundtrip'] = replay_roundtrip
REPLAYERS['registry'] = replay_registry


def c17(prop, pool, verdict, tier, seed):
    from rtc import prop_c17
    e1 = run_e1(prop, pool, verdict, tier, seed)
    fz = run_fuzz(prop, pool, verdict, tier, seed)
    e3 = prop_c17.arm_coverage()
    for f in e3['failures']:
        rp = write_replay(prop, 'arm-' + f['clause'], {'kind': 'render-arm', 'property': prop, 'obligation': 'BaseRenderer.render_block::' + f['clause'], 'detail': f})
        verdict.violation(rp)
    d = prop_c17.run(pool, tier, seed)
    by = {}
    for f in d['fails']:
        by.setdefault(f['stage'].split('/')[0] + ':' + f['kind'], []).append(f)
    for k, fs in sorted(by.items()):
        f = min(fs, key=lambda x: (len(str(x['graph'])), str(x['graph'])))
        rp = write_replay(prop, 'render-' + k, {'kind': 'render', 'property': prop, 'graph': f['graph'], 'payload': f.get('payload', 'plain'),
                                                'stage': f['stage'], 'check': f['kind'], 'detail': f['detail'], 'failing_inputs_in_scope': len(fs)})
        verdict.violation(rp)
    # ---- graphs of the source front end (every generated program, drawn before and after every stage that succeeds)
    from vcheck import load_known
    sp = src_pass(pool, tier, seed)
    for ce in sp.get('checker_exceptions', [])[:1]:
        verdict.errors.append('the source pass raised on a program: %s' % (ce,))
    by2 = {}
    for f in [f for f in sp['fails'] if f['prop'] == prop]:
        by2.setdefault(f['kind'], []).append(f)
    for k, fs in sorted(by2.items()):
        f = min(fs, key=lambda x: len(x['source']))
        rp = write_replay(prop, 'program-' + k, {'kind': 'program', 'property': prop, 'source': f['source'], 'check': k, 'detail': f['detail'],
                                                 'failing_inputs_in_scope': len(fs)})
        verdict.violation(rp)
    known = []
    for f in load_known().get('findings', []):
        if f['property'] == prop and f.get('kind') == 'program-region':
            try:
                r = witness_fails(prop, f['witness']['source'])
            except Exception as e:
                r = ('fail', {'kind': 'witness raised %r' % (e,)})
            if r:
                verdict.known.append('%s %s [region: %s] witness still fails: %s' % (f['id'], f['what'], f['region'], r[1].get('kind')))
                known.append(f['id'] + ' still fails')
            else:
                known.append(f['id'] + ' witness no longer fails')
    cov = coverage_from(e1, fz, 'C17 has no deductive content beyond a finite arm-coverage check (E3: one instance of every block class rendered by both renderers). Bounded: the DOT '
                        'source of SCFGRenderer (and ByteFlowRenderer for bytecode flows) parsed with a small statement grammar and compared with the hierarchy: one node per '
                        'non-region block inside the cluster of its innermost region, one nested cluster per region, one solid edge per jump target and one dashed edge per back '
                        'edge drawn to the innermost header, labels containing name / instructions or code / variable and table / assignments. rendering.py is tier B '
                        '(external graphviz object, string formatting).')
    cov['obligations'] += e3['obligations']
    cov['discharged'] += e3['discharged']
    cov['finite_domain'] = {'domain': e3['domain'], 'backend': 'finite-enumeration', 'obligations': e3['obligations']}
    cov['evaluations'] = d['renders'] + fz['evaluations']
    cov['distinct_nontrivial'] = d['nontrivial']
    cov['rule'] = ('every closed CFG with <= %d nodes plus seeded random ones (plain / AST / bytecode payloads) rendered at 4 stage prefixes, plus 3 bytecode functions through both '
                   'renderers; %d graphs; non-trivial = cycle or branch' % (d['exhaustive_nmax'], d['graphs']))
    cov['rule'] += ('; plus the graphs the source front end builds for %d generated programs, drawn before and after every restructuring stage that succeeds (outcomes: %s)'
                    % (sp['programs'], {k.split(':')[1]: v for k, v in sorted(sp['counts'].items()) if k.startswith('C17:')}))
    cov['evaluations'] += sp['programs']
    cov['exhaustive'] = False
    cov['known_findings'] = known
    cov['samples'] = cov['samples'] + d['samples'][:3]
    return 'exploration', cov, e1['assumptions'] + ['the graphviz Python layer emits one statement per line (quoted labels may span lines); no dot binary is involved']


def replay_render(r):
    from rtc import prop_c17
    if isinstance(r['graph'], str):
        fs = [f for n, ff in prop_c17.byteflow_cases() for f in ff]
    else:
        fs = prop_c17.check_graph({k: tuple(v) for k, v in r['graph'].items()}, r.get('payload', 'plain'))
    print('replay render: %s' % fs[:2])
    return 1 if fs else 0


CHECKS['C17'] = c17
REPLAYERS['render'] = replay_render
REPLAYERS['render-arm'] = lambda r: (1 if [f for f in __import__('rtc.prop_c17', fromlist=['x']).arm_coverage()['failures'] if f['clause'] == r['detail']['clause']] else 0)


# ------------------------------------------------------------------ source front end (C07, C08, C10)
def src_pass(pool, tier, seed):
    from rtc import prop_src
    os.makedirs(CACHE_DIR, exist_ok=True)
    path = os.path.join(CACHE_DIR, 'srcpass-%s-%s-%d.json' % (tree_hash(), tier, seed))
    if os.path.exists(path):
        with open(path) as fh:
            d = json.load(fh)
        d['cached'] = True
        return d
    t0 = time.time()
    d = prop_src.run(pool, tier, seed)
    d['wall'] = round(time.time() - t0, 1)
    d['cached'] = False
    with open(path, 'w') as fh:
        json.dump(d, fh)
    return d


def witness_fails(prop, src):
    from rtc import prop_src, progs
    fn = progs.compile_fn(src)
    ref = progs.behaviours(fn, max_len=4, max_runs=120)
    if prop == 'C17':
        r = prop_src.check_c17(src)
        return r if r[0] == 'fail' else None
    if prop == 'C08':
        r = prop_src.check_c08(src, ref)
    else:
        r = prop_src.check_c07_c10(src, ref)[prop]
    return r if r[0] == 'fail' else (('fail', {'kind': 'skipped-because-C07-fails'}) if (prop == 'C10' and r[0] == 'skipped') else None)


def src_property(explanation, extra_assumptions=()):
    def run(prop, pool, verdict, tier, seed):
        from vcheck import load_known
        e1 = run_e1(prop, pool, verdict, tier, seed)
        fz = run_fuzz(prop, pool, verdict, tier, seed)
        d = src_pass(pool, tier, seed)
        for ce in d.get('checker_exceptions', [])[:1]:
            verdict.errors.append('the source pass raised on a program: %s' % (ce,))
        mine = [f for f in d['fails'] if f['prop'] == prop]
        by = {}
        for f in mine:
            by.setdefault(f['kind'], []).append(f)
        for k, fs in sorted(by.items()):
            f = min(fs, key=lambda x: len(x['source']))
            rp = write_replay(prop, 'program-' + k, {'kind': 'program', 'property': prop, 'source': f['source'], 'check': k, 'detail': f['detail'],
                                                     'failing_inputs_in_scope': len(fs)})
            verdict.violation(rp)
        known = []
        for f in load_known().get('findings', []):
            if f['property'] == prop and f.get('kind') == 'program-region':
                try:
                    r = witness_fails(prop, f['witness']['source'])
                except Exception as e:
                    r = ('fail', {'kind': 'witness raised %r' % (e,)})
                if r:
                    verdict.known.append('%s %s [region: %s] witness still fails: %s' % (f['id'], f['what'], f['region'], r[1].get('kind')))
                    known.append(f['id'] + ' still fails')
                else:
                    known.append(f['id'] + ' witness no longer fails')
        c = d['counts']
        cov = coverage_from(e1, fz, explanation)
        cov['evaluations'] = d['paths'] + fz['evaluations']
        cov['programs'] = d['programs']
        cov['distinct_nontrivial'] = d['nontrivial']
        cov['rule'] = ('%d programs: %d hand-written ones (one per construct x test-expression class named by the properties) and seeded random structured programs over '
                       'assign / augmented assign / expression statement / return / pass / if-elif-else / while-else / for-else / break / continue, depth <= %d, '
                       'with tests and operands drawn from calls, attributes, subscripts, not, constants, comparisons (incl. chained), arithmetic, and/or; every test, iterator and '
                       'operand is an oracle access that logs itself and returns the next scripted decision; ALL decision paths are enumerated by extending the script on demand '
                       '(alphabet {0,1,2}, length <= %d): %d paths; non-trivial = has a compound statement. Outcome counts for %s: %s'
                       % (d['programs'], 28, 2 if tier == 'quick' else 3, 4 if tier == 'quick' else 6, d['paths'], prop,
                          {k.split(':')[1]: v for k, v in sorted(c.items()) if k.startswith(prop + ':')}))
        cov['exhaustive'] = False
        cov['samples'] = cov['samples'] + d['samples'][:3]
        cov['known_findings'] = known
        cov['known_region_note'] = ('programs inside a recorded finding region (syntactic / front-end-CFG predicate, known_findings.json) are run but their failures are not reported; '
                                    'a failure of any program outside every region is a VIOLATION')
        cov['bounded_pass_wall_s'] = d.get('wall')
        cov['bounded_pass_cached'] = d['cached']
        return 'exploration', cov, list(extra_assumptions) + e1['assumptions']
    return run


CHECKS['C07'] = src_property('C07 is compiler correctness of the whole source pipeline; no contract within reach decides it deductively. Bounded only: for every generated program the '
                             'original and the regenerated function are run on every enumerated decision script and must agree on (return value or exception type, log of oracle '
                             'accesses); NotImplementedError anywhere in the pipeline is a refusal, any other exception an internal error.',
                             ['CPython running the original is the oracle'])
CHECKS['C08'] = src_property('C08 is the correctness of the source-to-CFG translation; bounded only: a CFG interpreter (spec: run the block\'s statements, with two successors evaluate '
                             'the last expression and take the first if true) is compared with CPython on every enumerated decision script, with operands that log and raise; '
                             'statement objects must be unique across blocks.', ['CPython running the original is the oracle; the entry is block 0 or, when it was pruned, the next block created'])
CHECKS['C10'] = src_property('C10 static census of the regenerated tree (covers code on paths no input exercises): every statement object of every AST block appears exactly once, '
                             'every two-way block\'s test exactly once as an If.test, the (variable, constant) assignments equal the multiset over all synthetic assignment blocks, '
                             'the output unparses and compiles, and only names of the reserved __scfg_*__ namespace are introduced. Bounded only.', [])


def replay_program(r):
    res = witness_fails(r['property'], r['source'])
    print('replay program (%s): %s' % (r['property'], res))
    return 1 if res else 0


REPLAYERS['program'] = replay_program
