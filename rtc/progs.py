"""Program generator, logging oracle and runners for the source front end (C07, C08, C10).

Every test, iterator and call in a generated program goes through the oracle `o`, which logs the
access and returns the next scripted decision; all decision paths are enumerated by extending the
script whenever a run consumed more decisions than it was given (path-exhaustive up to the bound)."""
from __future__ import annotations
import ast
import itertools
import random
import textwrap


class Oracle:
    def __init__(self, script, alphabet_default=0):
        self.script = list(script)
        self.i = 0
        self.log = []
        self.default = alphabet_default

    def _next(self):
        v = self.script[self.i] if self.i < len(self.script) else self.default
        self.i += 1
        return v

    def __call__(self, tag):
        self.log.append(('call', tag))
        return self._next()

    @property
    def p(self):
        self.log.append(('attr',))
        return self._next()

    def __getitem__(self, k):
        self.log.append(('item', k))
        return self._next()

    def it(self, tag):
        self.log.append(('iter', tag))
        return list(range(self._next()))

    def pairs(self, tag):
        self.log.append(('pairs', tag))
        return [(j, j + 10) for j in range(self._next())]

    def c(self, *args, **kw):
        self.log.append(('c', args, tuple(sorted(kw.items()))))
        return args[0] if args else 0

    def boom(self, tag):
        self.log.append(('boom', tag))
        if self._next():
            raise ValueError(tag)
        return 1


class Gen:
    """random structured programs over the supported statement subset"""

    def __init__(self, rng, depth=2, clean=False):
        self.rng = rng
        self.k = 0
        self.depth = depth
        self.clean = clean      # avoid the constructs of the recorded findings (R8, R9, R14-R17)
        self.in_boolop = 0

    def tag(self):
        self.k += 1
        return self.k

    def atom(self):
        r = self.rng.random()
        if r < 0.55:
            return 'o(%d)' % self.tag()
        if r < 0.65:
            return 'x'
        if r < 0.72:
            return 'o.p'
        if r < 0.79:
            return 'o[%d]' % self.tag()
        if r < 0.86:
            return str(self.rng.choice([0, 1, 2]))
        if r < 0.93:
            return 'o.boom(%d)' % self.tag()
        return 'y'

    def expr(self, d=2, top=True):
        r = self.rng.random()
        if d <= 0 or r < 0.35:
            return self.atom()
        if self.clean:
            # and/or only at the top of an expression, nested and/or only as first operand
            if top and r < 0.50:
                return '(%s and %s)' % (self.expr(d - 1, True), self.arith(d - 1))
            if top and r < 0.65:
                return '(%s or %s)' % (self.expr(d - 1, True), self.arith(d - 1))
            if top and r < 0.70:
                return '(%s and %s and %s)' % (self.atom(), self.atom(), self.atom())
            return self.arith(d)
        if r < 0.50:
            return '(%s and %s)' % (self.expr(d - 1), self.expr(d - 1))
        if r < 0.65:
            return '(%s or %s)' % (self.expr(d - 1), self.expr(d - 1))
        if r < 0.72:
            return '(not %s)' % self.expr(d - 1)
        if r < 0.80:
            return '(%s < %s)' % (self.expr(d - 1), self.expr(d - 1))
        if r < 0.85:
            return '(%s < %s <= %s)' % (self.atom(), self.expr(d - 1), self.expr(d - 1) if self.rng.random() < 0.5 else self.atom())
        if r < 0.92:
            return '(%s + %s)' % (self.expr(d - 1), self.expr(d - 1))
        if r < 0.97:
            return 'o.c(%s, %s)' % (self.expr(d - 1), self.expr(d - 1))
        return '(%s and %s and %s)' % (self.atom(), self.atom(), self.atom())

    def arith(self, d):
        """and/or-free expression (clean mode)"""
        r = self.rng.random()
        if d <= 0 or r < 0.4:
            return self.atom()
        if r < 0.5:
            return '(not %s)' % self.arith(d - 1)
        if r < 0.65:
            return '(%s < %s)' % (self.arith(d - 1), self.arith(d - 1))
        if r < 0.72:
            return '(%s < %s <= %s)' % (self.atom(), self.arith(d - 1), self.atom())
        if r < 0.88:
            return '(%s + %s)' % (self.arith(d - 1), self.arith(d - 1))
        return 'o.c(%s, %s)' % (self.arith(d - 1), self.arith(d - 1))

    def block(self, d, in_loop):
        if self.clean:
            n = self.rng.choice([1, 2, 2, 3])
            out = []
            for i in range(n):
                st = self.stmt(d, in_loop, last=(i == n - 1))
                out.append(st)
            return out
        n = self.rng.choice([1, 1, 2, 2, 3])
        return [self.stmt(d, in_loop) for _ in range(n)]

    def stmt(self, d, in_loop, last=True):
        r = self.rng.random()
        v = self.rng.choice(['x', 'y'])
        if self.clean:
            return self.clean_stmt(d, in_loop, last, r, v)
        if d <= 0 or r < 0.30:
            q = self.rng.random()
            if q < 0.35:
                return ['%s = %s' % (v, self.expr())]
            if q < 0.55:
                return ['%s += %s' % (v, self.expr(1))]
            if q < 0.70:
                return ['o.c(%s)' % self.expr(1)]
            if q < 0.78:
                return ['return %s' % self.expr(1)]
            if q < 0.82:
                return ['pass']
            if in_loop and q < 0.91:
                return ['break']
            if in_loop:
                return ['continue']
            return ['%s = %s' % (v, self.expr(1))]
        if r < 0.55:
            out = ['if %s:' % self.expr()] + ind(self.block(d - 1, in_loop))
            q = self.rng.random()
            if q < 0.4:
                out += ['else:'] + ind(self.block(d - 1, in_loop))
            elif q < 0.55:
                out += ['elif %s:' % self.expr(1)] + ind(self.block(d - 1, in_loop)) + ['else:'] + ind(self.block(d - 1, in_loop))
            return out
        if r < 0.78:
            out = ['while %s:' % self.expr(1)] + ind(self.block(d - 1, True))
            if self.rng.random() < 0.3:
                out += ['else:'] + ind(self.block(d - 1, in_loop))
            return out
        tgt = self.rng.choice(['i', 'i', 'i', 'x'])
        out = ['for %s in o.it(%d):' % (tgt, self.tag())] + ind(self.block(d - 1, True))
        if self.rng.random() < 0.3:
            out += ['else:'] + ind(self.block(d - 1, in_loop))
        return out

    def clean_stmt(self, d, in_loop, last, r, v):
        if d <= 0 or r < 0.30:
            q = self.rng.random()
            if q < 0.40:
                return ['%s = %s' % (v, self.expr())]
            if q < 0.60:
                return ['%s += %s' % (v, self.expr(1))]
            if q < 0.75:
                return ['o.c(%s)' % self.arith(1)]
            if last and q < 0.83:
                return ['return %s' % self.expr(1)]
            if last and in_loop and q < 0.92:
                return ['%s = %s' % (v, self.arith(1)), 'break']
            if last and in_loop:
                return ['%s += 1' % v, 'continue']
            return ['%s = %s' % (v, self.arith(1))]
        if r < 0.55:
            out = ['if %s:' % self.expr()] + ind([['%s += 1' % v]] + self.block(d - 1, in_loop))
            q = self.rng.random()
            if q < 0.4:
                out += ['else:'] + ind([['%s += 2' % v]] + self.block(d - 1, in_loop))
            elif q < 0.55:
                out += ['elif %s:' % self.expr(1)] + ind([['%s += 3' % v]] + self.block(d - 1, in_loop)) + ['else:'] + ind([['%s += 4' % v]] + self.block(d - 1, in_loop))
            return out
        if r < 0.78:
            out = ['while %s:' % self.expr(1)] + ind([['%s += 1' % v]] + self.block(d - 1, True))
            if self.rng.random() < 0.3:
                out += ['else:'] + ind([['%s += 5' % v]] + self.block(d - 1, in_loop))
            return out
        self.k += 1
        tgt = 'j%d' % self.k      # a loop variable that is never read outside its loop
        out = ['for %s in o.it(%d):' % (tgt, self.tag())] + ind([['%s += %s' % (v, tgt)]] + self.block(d - 1, True))
        if self.rng.random() < 0.3:
            out += ['else:'] + ind([['%s += 6' % v]] + self.block(d - 1, in_loop))
        return out

    def program(self):
        self.k = 0
        body = ['x = 0', 'y = 1', 'i = 5']
        for st in self.block(self.depth, False):
            body += st
        if self.rng.random() < 0.75:
            body += ['return (x, y, i)']      # otherwise the function ends with whatever came last (implicit return None)
        return 'def f(o):\n' + '\n'.join('    ' + l for l in body) + '\n'


def ind(stmts):
    out = []
    for st in stmts:
        out += ['    ' + l for l in st]
    return out


SYSTEMATIC = [
    # one program per construct x test-expression class named by the properties
    "def f(o):\n    x = 0\n    if o.p:\n        x = 1\n    return x\n",
    "def f(o):\n    x = 0\n    if o[1]:\n        x = 1\n    return x\n",
    "def f(o):\n    x = 0\n    if not o(1):\n        x = 1\n    return x\n",
    "def f(o):\n    x = 0\n    if o.c(o(1)):\n        x = 1\n    return x\n",
    "def f(o):\n    x = 0\n    if 1:\n        x = o(1)\n    return x\n",
    "def f(o):\n    x = 0\n    if o(1) < o(2) < o(3):\n        x = 1\n    return x\n",
    "def f(o):\n    x = o.c(o(1) or 1, (o(2) and o(3)) or 2)\n    return x\n",
    "def f(o):\n    x = o.c(o(1), o(2) and o(3))\n    return x\n",
    "def f(o):\n    x = o(1) + (o(2) or o(3))\n    return x\n",
    "def f(o):\n    x = 0\n    while o(1) and o(2):\n        x += 1\n    return x\n",
    "def f(o):\n    x = 0\n    while o(1):\n        x += 1\n        if o(2):\n            break\n    else:\n        x += 10\n    return x\n",
    "def f(o):\n    x = 0\n    for i in o.it(1):\n        x += i\n    return (x, i)\n",
    "def f(o):\n    i = 7\n    x = 0\n    for i in o.it(1):\n        x += 1\n    return (x, i)\n",
    "def f(o):\n    x = 0\n    for a, b in o.pairs(1):\n        x += a + b\n    return x\n",
    "def f(o):\n    x = 0\n    for i in o.it(1):\n        if o(2):\n            continue\n        if o(3):\n            break\n        x += 1\n    else:\n        x += 100\n    return x\n",
    "def f(o):\n    x = 0\n    if o(1):\n        if o(2):\n            while o(3):\n                x += 1\n    return x\n",
    "def f(o):\n    x = 0\n    for i in o.it(1):\n        for j in o.it(2):\n            if o(3):\n                break\n            x += 1\n        else:\n            x += 10\n    return x\n",
    "def f(o):\n    if o(1):\n        return 1\n    elif o(2):\n        return 2\n    return 3\n",
    "def f(o):\n    x = 0\n    while o(1):\n        if o(2):\n            return x\n        x += 1\n    return -x\n",
    "def f(o):\n    x = o.boom(1) and o(2)\n    return x\n",
    "def f(o):\n    x = 0\n    if o(1) or o.boom(2):\n        x = 1\n    return x\n",
    "def f(o):\n    x = -o(1)\n    return x\n",
    "def f(o):\n    x = o.c(a=o(1) or o(2))\n    return x\n",
    "def f(o):\n    x = [o(1) and o(2)][0]\n    return x\n",
    "def f(o):\n    x = 1 if (o(1) and o(2)) else 2\n    return x\n",
    "def f(o):\n    x = 0\n    while o(1):\n        if o(2):\n            x += 1\n        elif o(3):\n            x += 2\n        else:\n            x += 4\n            return x\n        x += 10\n    return x\n",
    "def f(o):\n    x = 0\n    while o(1):\n        x += 1\n        if o(2):\n            x += 2\n            break\n        x += 3\n    x += 100\n    return x\n",
    "def f(o):\n    x = 0\n    y = 0\n    while o(1):\n        x += 1\n        while o(2):\n            y += 1\n            if o(3):\n                y += 10\n                break\n        else:\n            x += 5\n    else:\n        y += 100\n    return (x, y)\n",
    "def f(o):\n    x = 0\n    if o(1):\n        x += 1\n        if o(2):\n            x += 2\n            return x\n        x += 3\n    else:\n        x += 4\n    x += 5\n    return x\n",
    "def f(o):\n    x = 0\n    for j in o.it(1):\n        x += j\n        if o(2):\n            x += 10\n            continue\n        x += 100\n        if o(3):\n            x += 1000\n            break\n    else:\n        x += 7\n    return x\n",
    "def f(o):\n    x = 0\n    for j in o.it(1):\n        x += j\n        if o(2):\n            x += 10\n            break\n    else:\n        x += 1\n        return x\n",
    "def f(o):\n    x = 0\n    if o(1):\n        while o(2):\n            x += 1\n            if o(3):\n                x += 5\n                break\n        else:\n            x += 2\n            return x\n    else:\n        x += 3\n        return -x\n",
    "def f(o):\n    x = 0\n    while o(1):\n        x += 1\n",
    "def f(o):\n    pass\n",
    "def f(o):\n    x = o(1)\n",
    "def f(o):\n    while o(1):\n        pass\n    return 1\n",
    # loops whose body is empty after pruning (self-loop header), not first in the function
    "def f(o):\n    x = 0\n    while o(1):\n        pass\n    return x\n",
    "def f(o):\n    x = 0\n    while o(1):\n        continue\n    return x\n",
    "def f(o):\n    x = 0\n    for j in o.it(1):\n        pass\n    return x\n",
    "def f(o):\n    x = 0\n    if o(1):\n        while o(2):\n            pass\n        x += 1\n    return x\n",
    # break / continue inside an if inside the else-clause of a loop nested in another loop
    "def f(o):\n    x = 0\n    while o(1):\n        for j in o.it(2):\n            x += 1\n        else:\n            if o(3):\n                break\n            x += 10\n        x += 100\n    return x\n",
    "def f(o):\n    x = 0\n    while o(1):\n        for j in o.it(2):\n            x += 1\n        else:\n            if o(3):\n                continue\n            x += 10\n        x += 100\n    return x\n",
    "def f(o):\n    x = 0\n    for j in o.it(1):\n        while o(2):\n            x += 1\n        else:\n            if o(3):\n                break\n            x += 10\n        x += 100\n    return x\n",
    "def f(o):\n    x = 0\n    for j in o.it(1):\n        while o(2):\n            x += 1\n        else:\n            if o(3):\n                x += 5\n            else:\n                continue\n            x += 10\n        x += 100\n    return x\n",
    "def f(o):\n    x = 0\n    for j in o.it(1):\n        for k in o.it(2):\n            x += 1\n            if o(3):\n                break\n        else:\n            if o(4):\n                break\n        x += 100\n    else:\n        x += 1000\n    return x\n",
    # chained comparisons with an and/or operand (inside the region of finding R8: compared under the tag-constant oracle)
    "def f(o):\n    x = 0\n    if o(1) < o(2) < (o(3) or o(4)):\n        x = 1\n    return x\n",
    "def f(o):\n    x = o(1) <= o(2) <= (o(3) and o(4))\n    return x\n",
    "def f(o):\n    x = 0\n    while o(1) < o(2) < (o(3) or 2):\n        x += 1\n        if o(4):\n            break\n    return x\n",
    # several exits of one loop to different places (value tables with several entries per target)
    "def f(o):\n    x = 0\n    for j in o.it(1):\n        if o(2):\n            return x + 1\n        if o(3):\n            x += 5\n            break\n        x += 2\n    else:\n        x += 3\n    x += 4\n    return x\n",
]


def programs(tier, seed):
    out = list(SYSTEMATIC)
    rng = random.Random(seed)
    n = 1000 if tier == 'quick' else 4000
    for i in range(n):
        g = Gen(rng, depth=2 if (tier == 'quick' or i % 3) else 3, clean=(i % 5 != 0))
        out.append(g.program())
    return out


# ------------------------------------------------------------------ running
def run_fn(fn, script, limit=20000):
    import sys
    o = Oracle(script)
    steps = [0]

    def tracer(frame, event, arg):
        steps[0] += 1
        if steps[0] > limit:
            raise TimeoutError('step limit')
        return tracer
    old = sys.gettrace()
    sys.settrace(tracer)
    try:
        try:
            r = ('ok', repr(fn(o)))
        except TimeoutError:
            r = ('timeout', None)
        except Exception as e:
            r = ('exc', type(e).__name__)
    finally:
        sys.settrace(old)
    return r, o.log, o.i


def behaviours(fn, alphabet=(0, 1, 2), max_len=5, max_runs=400):
    """script -> (result, log) for all decision paths (scripts extended on demand)."""
    out = {}
    todo = [()]
    while todo and len(out) < max_runs:
        s = todo.pop()
        r, log, used = run_fn(fn, s)
        out[s] = (r, tuple(map(repr, log)))
        if used > len(s) and len(s) < max_len:
            for a in alphabet:
                todo.append(s + (a,))
    return out


def compile_fn(src, name='f'):
    ns = {}
    exec(compile(src, '<generated>', 'exec'), ns)
    return ns[name]
