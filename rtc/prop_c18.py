"""C18 bounded stand-in: histories of name requests, and freshness of every name handed out while the
real pipeline runs (checked at the moment the generator returns it, against the whole hierarchy)."""
from __future__ import annotations
import itertools
import os
import random
import re
import sys

REPO = os.environ.get('VERIF_REPO', '/repo')
if REPO not in sys.path:
    sys.path.insert(0, REPO)
import logging  # noqa: E402
logging.disable(logging.CRITICAL)

KINDS = ['a', 'a_block_1', 'a_region_', '__scfg_a', '1']
METHODS = ['new_block_name', 'new_region_name', 'new_var_name']
GEN_RE = [re.compile(r'^(?P<kind>.*)_block_(?P<idx>[0-9]+)$'), re.compile(r'^(?P<kind>.*)_region_(?P<idx>[0-9]+)$')]


def history_ok(seq):
    """seq of (method, kind, which generator handle) on ONE shared generator reached through a graph and a sub-graph."""
    from numba_scfg.core.datastructures.scfg import SCFG, NameGenerator
    g = SCFG({})
    sub = SCFG({}, name_gen=g.name_gen)      # how extract_region shares the generator
    seen = {}
    for i, (m, k, h) in enumerate(seq):
        gen = (g if h == 0 else sub).name_gen
        n = getattr(gen, m)(k)
        if n in seen:
            return {'kind': 'name-reused', 'name': n, 'first': seen[n], 'again': i}
        seen[n] = i
    return None


def all_names(scfg, acc=None):
    acc = set() if acc is None else acc
    for k, b in scfg.graph.items():
        acc.add(k)
        if type(b).__name__ == 'RegionBlock' and b.subregion is not None:
            all_names(b.subregion, acc)
    return acc


class Monitor:
    """wraps the three NameGenerator methods while a pipeline runs"""

    def __init__(self, top):
        self.top = top
        self.issued = set()
        self.events = []
        self.n = 0

    def __enter__(self):
        from numba_scfg.core.datastructures.scfg import NameGenerator
        self.cls = NameGenerator
        self.saved = {m: NameGenerator.__dict__[m] for m in METHODS}
        mon = self

        def wrap(orig, m):
            def f(self_, kind):
                name = orig(self_, kind)
                mon.n += 1
                if name in mon.issued:
                    mon.events.append({'kind': 'name-reused', 'name': name})
                mon.issued.add(name)
                if m != 'new_var_name' and name in all_names(mon.top):
                    mon.events.append({'kind': 'generated-name-already-present', 'name': name})
                return name
            return f
        for m in METHODS:
            setattr(NameGenerator, m, wrap(self.saved[m], m))
        return self

    def __exit__(self, *a):
        for m in METHODS:
            setattr(self.cls, m, self.saved[m])


def ng_inv(scfg):
    """every name of the hierarchy that parses as a generated (kind, idx) has idx < kinds[kind]"""
    kinds = scfg.name_gen.kinds
    for n in all_names(scfg):
        for rx in GEN_RE:
            mt = rx.match(n)
            if mt and int(mt.group('idx')) >= kinds.get(mt.group('kind'), 0) and str(int(mt.group('idx'))) == mt.group('idx'):
                return n
    return None


def generator_shared(scfg):
    """name of a region whose sub-graph does not use the top-level graph's generator object (None: all shared)"""
    st = [scfg]
    while st:
        g = st.pop()
        for k, b in g.graph.items():
            if type(b).__name__ == 'RegionBlock' and b.subregion is not None:
                if b.subregion.name_gen is not scfg.name_gen:
                    return k
                st.append(b.subregion)
    return None


def pipeline_case(g0, rename=None):
    """run the stages on g0 (names optionally renamed into the generator's namespace)."""
    from numba_scfg.core.datastructures.scfg import SCFG
    from numba_scfg.core.datastructures.basic_block import BasicBlock
    rn = rename or {}
    g = {rn.get(k, k): tuple(rn.get(t, t) for t in v) for k, v in g0.items()}
    scfg = SCFG({k: BasicBlock(k, v) for k, v in g.items()})
    in_region_K = ng_inv(scfg) is not None
    orig = dict(scfg.graph)
    out = []
    with Monitor(scfg) as mon:
        for stage in ('join_returns', 'restructure_loop', 'restructure_branch'):
            try:
                getattr(scfg, stage)()
            except Exception as e:
                if not in_region_K:
                    out.append({'kind': 'raise:' + type(e).__name__, 'stage': stage})
                break
            for ev in mon.events:
                out.append(dict(ev, stage=stage))
            del mon.events[:]
            names = all_names(scfg)
            lost = [k for k in orig if k not in names]
            if lost:
                out.append({'kind': 'original-block-overwritten-or-lost', 'stage': stage, 'name': lost[0]})
            bad = ng_inv(scfg)
            if bad and not in_region_K:
                out.append({'kind': 'NG_inv-broken', 'stage': stage, 'name': bad})
            sh = generator_shared(scfg)
            if sh:
                out.append({'kind': 'generator-not-shared', 'stage': stage, 'name': sh})
    # written out and read back: one generator for the graph and all of its sub-graphs (names handed out "for that
    # graph or any of its sub-graphs" must differ - two generators would both start at the same index)
    if not out:
        try:
            from numba_scfg.core.datastructures.scfg import SCFGIO
            g2, _ = SCFGIO.from_dict(SCFGIO.to_dict(scfg))
            sh = generator_shared(g2)
            if sh:
                out.append({'kind': 'generator-not-shared-after-reload', 'stage': 'reload', 'name': sh})
        except Exception as e:
            out.append({'kind': 'reload-raises:' + type(e).__name__, 'stage': 'reload'})
    return out, in_region_K, mon.n


NAMESPACE_NAMES = ['synth_return_block_0', 'synth_asign_block_0', 'synth_head_block_0', 'synth_exit_latch_block_0',
                   'synth_tail_block_0', 'synth_exit_block_0', 'loop_region_0', 'head_region_0', 'synth_fill_block_0']


def work(args):
    kind, payload = args
    out = {'cases': 0, 'nontrivial': 0, 'fails': [], 'known_region': 0, 'known_region_fails': 0, 'samples': [], 'names_issued': 0}
    if kind == 'hist':
        L, start, stop = payload
        opts = [(m, k, h) for m in METHODS for k in KINDS for h in (0, 1)]
        for idx in range(start, stop):
            seq, x = [], idx
            for _ in range(L):
                seq.append(opts[x % len(opts)])
                x //= len(opts)
            out['cases'] += 1
            out['nontrivial'] += 1 if L > 1 else 0
            r = history_ok(seq)
            if r:
                out['fails'].append({'what': 'history', 'history': seq, 'detail': r})
            elif len(out['samples']) < 1 and L > 1:
                out['samples'].append({'history': seq})
        return out
    from rtc import cfgpass
    n, start, stop, mode, seed = payload
    rng = random.Random(seed)
    for idx in range(start, stop):
        succ = cfgpass.graph_from_index(n, idx)
        if not cfgpass.is_closed(succ):
            continue
        g0 = cfgpass.to_named(succ)
        rename = None
        if mode == 'namespace':
            ks = list(g0)
            rename = {k: nm for k, nm in zip(rng.sample(ks, min(2, len(ks))), rng.sample(NAMESPACE_NAMES, 2))}
        out['cases'] += 1
        out['nontrivial'] += 1 if cfgpass.nontrivial(g0) else 0
        res, inK, n_issued = pipeline_case(g0, rename)
        out['names_issued'] += n_issued
        if inK:
            out['known_region'] += 1
            if res:
                out['known_region_fails'] += 1
            continue
        for r in res:
            out['fails'].append({'what': 'pipeline', 'graph': g0, 'rename': rename, 'detail': r})
        if not res and len(out['samples']) < 1 and cfgpass.nontrivial(g0):
            out['samples'].append({'graph': g0, 'names_issued': n_issued})
    return out


def front_end_cases():
    """graphs built by the bytecode front end carry names of the generator's namespace: NG_inv must hold for
    them and a further request must not collide; then the pipeline is run under the monitor."""
    from numba_scfg.core.datastructures.byte_flow import ByteFlow
    from numba_scfg.core.datastructures.basic_block import PythonBytecodeBlock
    from rtc.prop_c12 import bytecode_functions
    from rtc.prop_c09 import handwritten
    out = []
    for fn in bytecode_functions() + handwritten():
        try:
            scfg = ByteFlow.from_bytecode(fn).scfg
        except Exception as e:
            continue
        bad = ng_inv(scfg)
        if bad:
            out.append({'what': 'front-end', 'function': fn.__name__, 'detail': {'kind': 'NG_inv-not-established', 'name': bad}})
            continue
        n = scfg.name_gen.new_block_name('python_bytecode')
        if n in scfg.graph:
            out.append({'what': 'front-end', 'function': fn.__name__, 'detail': {'kind': 'generated-name-already-present', 'name': n}})
            continue
        with Monitor(scfg) as mon:
            try:
                scfg.restructure()
            except Exception as e:
                out.append({'what': 'front-end', 'function': fn.__name__, 'detail': {'kind': 'raise:' + type(e).__name__}})
                continue
            for ev in mon.events:
                out.append({'what': 'front-end', 'function': fn.__name__, 'detail': ev})
        bad = ng_inv(scfg)
        if bad:
            out.append({'what': 'front-end', 'function': fn.__name__, 'detail': {'kind': 'NG_inv-broken', 'name': bad}})
    return out


def run(pool, tier, seed):
    from rtc import cfgpass
    tasks = []
    nopt = len(METHODS) * len(KINDS) * 2
    for L in ((1, 2, 3) if tier == 'quick' else (1, 2, 3, 4)):
        total = nopt ** L
        step = max(1, total // 32)
        for s in range(0, total, step):
            tasks.append(('hist', (L, s, min(total, s + step))))
    nmax = 4 if tier == 'quick' else 5
    for n in range(1, nmax + 1):
        raw = cfgpass.raw_count(n)
        step = max(1, raw // (32 if n < 5 else 256))
        for s in range(0, raw, step):
            tasks.append(('cfg', (n, s, min(raw, s + step), 'plain', seed)))
            if n <= 4:
                tasks.append(('cfg', (n, s, min(raw, s + step), 'namespace', seed + 1)))
    res = pool.map(work, tasks, chunksize=1)
    d = {'cases': sum(r['cases'] for r in res), 'nontrivial': sum(r['nontrivial'] for r in res), 'fails': [], 'samples': [],
         'known_region': sum(r['known_region'] for r in res), 'known_region_fails': sum(r['known_region_fails'] for r in res),
         'names_issued': sum(r['names_issued'] for r in res)}
    for r in res:
        d['fails'] += r['fails']
        if r['samples'] and len(d['samples']) < 4:
            d['samples'] += r['samples'][:1]
    fe = front_end_cases()
    d['fails'] += fe
    d['cases'] += 15
    d['nontrivial'] += 15
    return d
