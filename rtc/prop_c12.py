"""C12 bounded stand-in: the same inputs restructured in separate processes under different
PYTHONHASHSEED values; canonical dumps (names, nesting, target order, tables, dict insertion order,
generator counters) and regenerated source must be identical."""
from __future__ import annotations
import hashlib
import json
import os
import random
import subprocess
import sys

REPO = os.environ.get('VERIF_REPO', '/repo')
if REPO not in sys.path:
    sys.path.insert(0, REPO)

SOURCES = [
    "def f(x):\n    y = 0\n    while x > 0:\n        if x % 2 and y < 10:\n            y += x\n        elif x == 7:\n            break\n        x -= 1\n    else:\n        y -= 1\n    return y\n",
    "def f(a, b):\n    c = 0\n    for i in range(a):\n        for j in range(b):\n            if i == j:\n                continue\n            if i > j or j > 5:\n                break\n            c += 1\n        else:\n            c += 10\n    return c\n",
    "def f(x, y):\n    if x and y:\n        return 1\n    elif x or y:\n        return 2\n    return 3\n",
    "def f(a, b):\n    c = 0\n    if a > 0:\n        while a:\n            a -= 1\n            c += 1\n    elif b > 0:\n        for i in range(b):\n            c += i\n    else:\n        while c < 3:\n            c += 1\n    return c\n",
    "def f(n):\n    s = 0\n    i = 0\n    while i < n:\n        i += 1\n        if i % 2:\n            continue\n        if i % 3:\n            continue\n        if i % 5:\n            continue\n        s += i\n    return s\n",
    "def f(n):\n    s = 0\n    while n:\n        n -= 1\n        if n == 3:\n            return s\n        s += n\n    return -s\n",
]


def bytecode_functions():
    def b1(n):
        c = 0
        for i in range(n):
            if i % 2:
                c += i
            else:
                c -= 1
        return c

    def b2(a, b):
        while a > 0:
            a -= 1
            if a == b:
                break
            for j in range(b):
                a += 0
        return a

    def b3(x):
        if x is None:
            return 0
        return (x and 1) or 2
    return [b1, b2, b3]


def inputs(tier, seed):
    from rtc import cfgpass
    rng = random.Random(seed)
    graphs = []
    for n in (1, 2, 3):
        for idx in range(cfgpass.raw_count(n)):
            s = cfgpass.graph_from_index(n, idx)
            if cfgpass.is_closed(s):
                graphs.append(cfgpass.to_named(s))
    # sibling loops in different branch arms, several latches per loop
    graphs.append({'0': ('1', '4'), '1': ('2', '3'), '2': ('2', '7'), '3': ('3', '7'), '4': ('5', '6'), '5': ('5', '7'), '6': ('6', '7'), '7': ()})
    graphs.append({'0': ('1',), '1': ('2', '6'), '2': ('3', '1'), '3': ('4', '1'), '4': ('5', '1'), '5': ('1',), '6': ()})
    cnt = 150 if tier == 'quick' else 1500
    for i in range(cnt):
        graphs.append(cfgpass.to_named(cfgpass.random_closed(rng.choice([4, 5, 6, 7, 8, 9, 10, 12]), rng)))
    return graphs


def digest(obj):
    return hashlib.sha256(repr(obj).encode()).hexdigest()[:16]


def child(tier, seed):
    import logging
    logging.disable(logging.CRITICAL)
    import ast
    from numba_scfg.core.datastructures.scfg import SCFG
    from numba_scfg.core.datastructures.basic_block import BasicBlock
    from numba_scfg.core.datastructures.ast_transforms import AST2SCFG, SCFG2AST
    from numba_scfg.core.datastructures.byte_flow import ByteFlow
    from spec.hier import canon
    out = []
    for g0 in inputs(tier, seed):
        s = SCFG({k: BasicBlock(k, v) for k, v in g0.items()})
        try:
            s.restructure()
            out.append(digest(canon(s)))
        except Exception as e:
            out.append('raise:' + type(e).__name__)
    for src in SOURCES:
        try:
            s = AST2SCFG(src)
            d0 = digest(canon(s))
            s.restructure()
            d1 = digest(canon(s))
            try:
                txt = ast.unparse(SCFG2AST(src, s))
            except Exception as e:
                txt = 'raise:' + type(e).__name__
            out.append([d0, d1, digest(txt)])
        except Exception as e:
            out.append('raise:' + type(e).__name__)
    for fn in bytecode_functions():
        try:
            bf = ByteFlow.from_bytecode(fn)
            d0 = digest(canon(bf.scfg))
            bf.scfg.restructure()
            out.append([d0, digest(canon(bf.scfg))])
        except Exception as e:
            out.append('raise:' + type(e).__name__)
    print(json.dumps(out))


def run(pool, tier, seed):
    seeds = [0, 1, 2, 3] if tier == 'quick' else list(range(16))
    procs = []
    for hs in seeds:
        env = dict(os.environ, PYTHONHASHSEED=str(hs + 1 + 97 * seed), VERIF_REPO=REPO)
        procs.append(subprocess.Popen([sys.executable, '-m', 'rtc.prop_c12', 'child', tier, str(seed)], env=env,
                                      stdout=subprocess.PIPE, stderr=subprocess.PIPE, text=True, cwd=os.path.dirname(os.path.dirname(os.path.abspath(__file__)))))
    outs = []
    for p in procs:
        o, e = p.communicate()
        if p.returncode != 0:
            return {'error': 'child failed: ' + e[-400:]}
        outs.append(json.loads(o.strip().split('\n')[-1]))
    ins = inputs(tier, seed)
    labels = [('graph', g) for g in ins] + [('source', s) for s in SOURCES] + [('bytecode', f.__name__) for f in bytecode_functions()]
    fails = []
    for i, lab in enumerate(labels):
        vals = {json.dumps(o[i]) for o in outs}
        if len(vals) > 1:
            fails.append({'input': lab, 'values': sorted(vals)[:3]})
    from rtc import cfgpass
    return {'inputs': len(labels), 'nontrivial': sum(1 for g in ins if cfgpass.nontrivial(g)) + len(SOURCES) + 3, 'hash_seeds': len(seeds), 'fails': fails,
            'samples': [{'graph': ins[-1], 'digest_under_every_seed': outs[0][len(ins) - 1]}, {'source': SOURCES[0], 'digests': outs[0][len(ins)]}]}


if __name__ == '__main__':
    if sys.argv[1] == 'child':
        child(sys.argv[2], int(sys.argv[3]))
