"""E2 at function level: the sidecar contract of one function evaluated at run
time on the REAL function over generated inputs (bounded stand-in; also the
source of replayable failing inputs when a proof obligation is not discharged).
"""
from __future__ import annotations
import copy
import importlib
import json
import os
import random
import sys
import types

REPO = os.environ.get('VERIF_REPO', '/repo')
if REPO not in sys.path:
    sys.path.insert(0, REPO)

from pyvc.contract import REGISTRY, Contract   # noqa: E402
from pyvc import smt as S                       # noqa: E402
from contracts.macros import runtime_namespace, ceval, view_args, TotalView  # noqa: E402

UNIVERSE = ['a', 'b', 'c', 'd', 'e']


def real_function(qual):
    modname, path = qual.split('#')[0].split(':')
    mod = importlib.import_module(modname)
    obj = mod
    parts = path.split('.')
    for i, p in enumerate(parts):
        if isinstance(obj, type):
            raw = obj.__dict__[p]
            if isinstance(raw, property):
                return raw.fget, mod
            if isinstance(raw, staticmethod):
                return raw.__func__, mod
            obj = raw
        else:
            obj = getattr(obj, p)
    return obj, mod


class Gen:
    def __init__(self, rng):
        self.rng = rng
        from numba_scfg.core.datastructures import basic_block as bb
        from numba_scfg.core.datastructures.scfg import SCFG, NameGenerator
        self.bb, self.SCFG, self.NameGenerator = bb, SCFG, NameGenerator
        self.plain = [bb.BasicBlock, bb.PythonBytecodeBlock, bb.PythonASTBlock, bb.SyntheticBlock, bb.SyntheticExit, bb.SyntheticReturn,
                      bb.SyntheticTail, bb.SyntheticFill, bb.SyntheticAssignment]
        self.branch = [bb.SyntheticBranch, bb.SyntheticHead, bb.SyntheticExitingLatch, bb.SyntheticExitBranch]

    def name(self, extra=()):
        return self.rng.choice(UNIVERSE + list(extra))

    def names(self, lo=0, hi=3, distinct=False, pool=None):
        pool = pool or UNIVERSE
        n = self.rng.randint(lo, min(hi, len(pool)) if distinct else hi)
        if distinct:
            return self.rng.sample(pool, n)
        return [self.rng.choice(pool) for _ in range(n)]

    def block(self, name=None, pool=None, branchy=0.25, with_be=0.2):
        r = self.rng
        pool = pool or UNIVERSE
        name = name or self.name()
        if r.random() < branchy:
            cls = r.choice(self.branch)
            jt = tuple(self.names(1, 3, distinct=r.random() < 0.9, pool=pool))
            if r.random() < 0.85:
                keys = list(range(len(jt) + r.randint(0, 2)))
                table = {}
                for i, t in enumerate(jt):
                    table[keys[i]] = t
                for k in keys[len(jt):]:
                    table[k] = r.choice(jt)
            else:
                table = {i: r.choice(pool) for i in range(r.randint(0, 3))}
            be = (r.choice(jt),) if (r.random() < with_be) else ()
            return cls(name=name, _jump_targets=jt, backedges=be, variable='v%d' % r.randint(0, 2), branch_value_table=table)
        cls = r.choice(self.plain)
        jt = tuple(self.names(0, 3, distinct=r.random() < 0.85, pool=pool))
        be = (r.choice(jt),) if (jt and r.random() < with_be) else ()
        kw = {}
        if cls is self.bb.PythonBytecodeBlock:
            kw = dict(begin=r.randint(0, 10) * 2, end=r.randint(0, 10) * 2)
        if cls is self.bb.PythonASTBlock:
            kw = dict(begin=r.randint(0, 10) * 2, end=r.randint(0, 10) * 2, tree=[])
        if cls is self.bb.SyntheticAssignment:
            kw = dict(variable_assignment={'v%d' % r.randint(0, 2): r.randint(0, 3)})
        return cls(name=name, _jump_targets=jt, backedges=be, **kw)

    def scfg(self, with_be=0.15, ext=0.3):
        r = self.rng
        keys = self.names(1, 5, distinct=True)
        pool = keys + (r.sample([u for u in UNIVERSE if u not in keys], min(1, len(UNIVERSE) - len(keys))) if r.random() < ext else [])
        g = {k: self.block(k, pool, with_be=with_be) for k in keys}
        return self.SCFG(g, name_gen=self.NameGenerator())

    def value(self, ty, ctx):
        r = self.rng
        k = ty[0]
        if k == 'name':
            return self.name(extra=['n'])
        if k == 'int':
            return r.randint(-1, 4)
        if k == 'bool':
            return r.random() < 0.5
        if k == 'block':
            return self.block()
        if k == 'cls':
            return r.choice(self.plain[3:8] + self.branch[:1] + [self.bb.BasicBlock])
        if k == 'seq':
            return [self.value(ty[1], ctx) for _ in range(r.randint(0, 3))]
        if k == 'set':
            return {self.value(ty[1], ctx) for _ in range(r.randint(0, 3))}
        if k == 'dict':
            return {self.value(ty[1], ctx): self.value(ty[2], ctx) for _ in range(r.randint(0, 3))}
        if k == 'opt':
            return None if r.random() < 0.3 else self.value(ty[1], ctx)
        if k == 'pair':
            return tuple(self.value(t, ctx) for t in ty[1:])
        if k == 'tmap':
            import collections
            d = collections.defaultdict(set)
            for _ in range(r.randint(0, 3)):
                d[self.value(ty[1], ctx)] |= self.value(ty[2], ctx)
            return d
        if k == 'obj' and ty[1] == 'SCFG':
            return self.scfg()
        if k == 'obj' and ty[1] == 'NameGenerator':
            return self.NameGenerator(kinds={self.name(): r.randint(0, 3) for _ in range(r.randint(0, 2))})
        raise NotImplementedError('generator for %r' % (ty,))


# specialised generators (bias towards inputs that satisfy the preconditions) ----
def gen_graph_and_subset(g: Gen, c: Contract):
    scfg = g.scfg()
    keys = list(scfg.graph)
    sub = set(g.rng.sample(keys, g.rng.randint(0, len(keys))))
    if g.rng.random() < 0.15:
        sub.add('zz')
    return {'self': scfg, 'subgraph': sub}


def regionize(g: Gen, scfg, prob=0.3):
    """with probability `prob` turn one plain block into a region whose exiting chain (depth 1-2, optionally with a latch
    back edge inside) mirrors its targets - the shape the pipeline hands to the edit primitives as a region predecessor"""
    r = g.rng
    cands = [k for k, b in scfg.graph.items() if not isinstance(b, g.bb.SyntheticBranch) and not b.backedges]
    if not cands or r.random() >= prob:
        return None
    k = r.choice(cands)
    b = scfg.graph[k]
    fwd = tuple(b._jump_targets)

    def level(depth, name):
        be = ('h' + name,) if r.random() < 0.4 else ()
        jt = fwd + be if r.random() < 0.5 else be + fwd
        if depth == 0:
            return g.bb.BasicBlock(name=name, _jump_targets=jt, backedges=be)
        sub = g.SCFG({'x' + name: level(depth - 1, 'x' + name)}, name_gen=scfg.name_gen)
        return g.bb.RegionBlock(name=name, _jump_targets=fwd, backedges=(), kind='loop', header='x' + name, subregion=sub,
                                exiting='x' + name, parent_region=None)
    sub = g.SCFG({'x': level(r.choice([0, 0, 1]), 'x')}, name_gen=scfg.name_gen)
    scfg.graph[k] = g.bb.RegionBlock(name=k, _jump_targets=fwd, backedges=(), kind='loop', header='x', subregion=sub, exiting='x',
                                     parent_region=scfg.region)
    return k


def gen_insert(g: Gen, c: Contract):
    r = g.rng
    scfg = g.scfg(with_be=0.05)
    regionize(g, scfg)
    keys = list(scfg.graph)
    P = r.sample(keys, r.randint(0, len(keys)))
    alltargets = sorted({t for b in scfg.graph.values() for t in b._jump_targets}) or ['a']
    pool = alltargets + UNIVERSE
    S_ = []
    for _ in range(r.randint(0, 3)):
        t = r.choice(pool)
        if t not in S_:
            S_.append(t)
    args = {'self': scfg, 'new_name': 'n' if r.random() < 0.9 else r.choice(UNIVERSE), 'predecessors': P, 'successors': S_}
    if 'block_type' in c.params:
        args['block_type'] = r.choice([g.bb.SyntheticExit, g.bb.SyntheticTail, g.bb.SyntheticReturn, g.bb.SyntheticFill, g.bb.SyntheticBlock])
    return args


def gen_branch_replace(g: Gen, c: Contract):
    r = g.rng
    b = g.block(branchy=1.0, with_be=0.1)
    n = len(b._jump_targets)
    pool = UNIVERSE + ['n', 'm']
    if r.random() < 0.85:
        new = list(b._jump_targets)
        for i in range(n):
            if r.random() < 0.5:
                new[i] = r.choice(pool)
    else:
        new = [r.choice(pool) for _ in range(r.randint(0, 3))]
    return {'self': b, 'jump_targets': tuple(new)}


def gen_insert_ctrl(g: Gen, c: Contract):
    r = g.rng
    scfg = g.scfg(with_be=0.03)
    regionize(g, scfg)
    keys = list(scfg.graph)
    P = r.sample(keys, r.randint(1, len(keys)))
    targeted = sorted({t for p in P for t in scfg.graph[p].jump_targets})
    S_ = r.sample(targeted, r.randint(0, min(3, len(targeted)))) if targeted else []
    if r.random() < 0.1:
        S_.append(r.choice(UNIVERSE))
    return {'self': scfg, 'new_name': 'n', 'predecessors': P, 'successors': S_}


def gen_tails_exits(g: Gen, c: Contract):
    r = g.rng
    scfg = g.scfg(with_be=0.03)
    regionize(g, scfg)
    keys = list(scfg.graph)
    T = r.sample(keys, r.randint(1, min(3, len(keys))))
    targeted = sorted({t for p in T for t in scfg.graph[p].jump_targets if t not in T})
    E = r.sample(targeted, r.randint(0, min(3, len(targeted)))) if targeted else []
    if not E:
        E = [r.choice(UNIVERSE)]
    return {'self': scfg, 'tails': T, 'exits': E}


def random_stream(r):
    """a WFdis-like instruction stream: even increasing offsets, jump targets inside, ends with a return"""
    import types as _t
    n = r.randint(1, 8)
    offs = []
    o = 0
    for _ in range(n):
        offs.append(o)
        o += 2 * r.choice([1, 1, 1, 2])
    ops = []
    for i in range(n):
        if i == n - 1:
            ops.append(r.choice(['RETURN_VALUE', 'RETURN_CONST', 'JUMP_BACKWARD']))
        else:
            ops.append(r.choice(['LOAD_FAST', 'LOAD_FAST', 'STORE_FAST', 'POP_JUMP_IF_FALSE', 'POP_JUMP_IF_TRUE', 'FOR_ITER', 'JUMP_FORWARD',
                                 'JUMP_BACKWARD', 'RETURN_VALUE', 'POP_JUMP_IF_NONE', 'NOP']))
    insts = []
    for i in range(n):
        jump = ops[i].startswith('POP_JUMP') or ops[i].startswith('JUMP') or ops[i] == 'FOR_ITER'
        insts.append(_t.SimpleNamespace(offset=offs[i], opname=ops[i], argval=(r.choice(offs) if jump else r.randint(0, 3)), is_jump_target=False))
    tg = {x.argval for x in insts if x.opname.startswith('POP_JUMP') or x.opname.startswith('JUMP') or x.opname == 'FOR_ITER'}
    for x in insts:
        x.is_jump_target = x.offset in tg
    return insts


def gen_stream(g: Gen, c: Contract):
    return {'bc': random_stream(g.rng)}


def gen_flowinfo(g: Gen, c: Contract):
    from numba_scfg.core.datastructures.flow_info import FlowInfo
    fi = FlowInfo.from_bytecode(random_stream(g.rng))
    if 'targets' in c.params:
        return {'self': fi, 'offset': g.rng.randint(0, 10) * 2, 'targets': tuple(g.rng.randint(0, 10) * 2 for _ in range(g.rng.randint(0, 2)))}
    return {'self': fi, 'end_offset': None}


def gen_block_bcmap(g: Gen, c: Contract):
    st = random_stream(g.rng)
    bcmap = {x.offset: x for x in st if g.rng.random() < 0.85}
    b = g.rng.randint(0, 6) * 2
    return {'self': g.bb.PythonBytecodeBlock(name='b', begin=b, end=b + g.rng.randint(0, 6) * 2 + g.rng.choice([0, 0, 1])), 'bcmap': bcmap}


def gen_namegen(g: Gen, c: Contract):
    r = g.rng
    kinds = ['a', 'synth_asign', 'control', 'a_block_1', 'x_region_', '__scfg_', '1', '']
    ng = g.NameGenerator(kinds={r.choice(kinds): r.randint(0, 12) for _ in range(r.randint(0, 3))})
    return {'self': ng, 'kind': r.choice(kinds)}


def gen_graph_and_pair(g: Gen, c: Contract):
    scfg = g.scfg()
    keys = list(scfg.graph)
    return {'self': scfg, 'begin': g.rng.choice(keys) if g.rng.random() < 0.9 else 'zz', 'end': g.rng.choice(keys + UNIVERSE)}


def gen_dom_tables(g: Gen, c: Contract):
    """entries / nodes / predecessor and successor tables as _doms and _post_doms build them, sometimes perturbed"""
    import collections
    r = g.rng
    scfg = g.scfg(with_be=0.1, ext=0.4)
    preds, succs = collections.defaultdict(set), collections.defaultdict(set)
    post = r.random() < 0.4
    for src, node in scfg.graph.items():
        for dst in node.jump_targets:
            if dst in scfg.graph:
                (preds[src] if post else preds[dst]).add(dst if post else src)
                (succs[dst] if post else succs[src]).add(src if post else dst)
    nodes = list(scfg.graph)
    entries = {k for k in nodes if not preds[k]}
    if r.random() < 0.25:
        entries |= set(r.sample(nodes, r.randint(0, len(nodes))))     # extra entries (allowed by the contract)
    if r.random() < 0.08 and nodes:
        succs[r.choice(nodes)].discard(r.choice(nodes))              # breaks `converse` (case skipped)
    if r.random() < 0.05:
        entries = set()
    return {'entries': entries, 'nodes': nodes, 'preds_table': preds, 'succs_table': succs}


def gen_view(g: Gen, c: Contract):
    """a level with a unique head most of the time, duplicate targets, sometimes a region whose exiting block mirrors it"""
    r = g.rng
    scfg = g.scfg(with_be=0.1, ext=0.3)
    keys = list(scfg.graph)
    if r.random() < 0.6:
        # make keys[0] the unique head: drop it from every target tuple, chain the others behind it
        h = keys[0]
        for k in keys:
            b = scfg.graph[k]
            jt = tuple(t for t in b._jump_targets if t != h)
            if isinstance(b, g.bb.SyntheticBranch):
                continue
            scfg.graph[k] = g.bb.BasicBlock(name=k, _jump_targets=jt, backedges=tuple(t for t in b.backedges if t in jt))
        rest = [k for k in keys[1:]]
        if rest:
            hb = scfg.graph[h]
            if not isinstance(hb, g.bb.SyntheticBranch):
                scfg.graph[h] = g.bb.BasicBlock(name=h, _jump_targets=tuple(rest[:2]) + ((rest[0],) if r.random() < 0.3 else ()), backedges=())
    if r.random() < 0.3 and keys:
        k = r.choice(keys)
        b = scfg.graph[k]
        inner = g.bb.BasicBlock(name='x', _jump_targets=b._jump_targets if r.random() < 0.9 else (), backedges=b.backedges)
        sub = g.SCFG({'x': inner}, name_gen=scfg.name_gen)
        scfg.graph[k] = g.bb.RegionBlock(name=k, _jump_targets=b._jump_targets, backedges=b.backedges, kind='loop', header='x',
                                         subregion=sub, exiting='x', parent_region=scfg.region)
    view = scfg.concealed_region_view
    head = None if r.random() < 0.7 else r.choice(keys + ['zz'])
    return {'self': view, 'head': head}


def gen_branch_regions(g: Gen, c: Contract):
    r = g.rng
    for _ in range(20):
        scfg = g.scfg(with_be=0.1, ext=0.1)
        cands = [k for k, b in scfg.graph.items() if len(b.jump_targets) >= 2 and all(t in scfg.graph for t in b.jump_targets)]
        if cands:
            break
    keys = list(scfg.graph)
    begin = r.choice(cands) if cands else r.choice(keys)
    return {'scfg': scfg, 'begin': begin, 'end': r.choice(keys)}


def gen_head_blocks(g: Gen, c: Contract):
    """begin on (or one step off) the single-successor chain that starts at the head; never an endless chain"""
    r = g.rng
    scfg = g.scfg(with_be=0.05, ext=0.2)
    keys = list(scfg.graph)
    heads = [k for k in keys if not any(k in b.jump_targets for b in scfg.graph.values())]
    if len(heads) != 1:
        # make the first key the head
        h = keys[0]
        for k in keys:
            b = scfg.graph[k]
            if not isinstance(b, g.bb.SyntheticBranch):
                scfg.graph[k] = g.bb.BasicBlock(name=k, _jump_targets=tuple(t for t in b._jump_targets if t != h), backedges=())
        heads = [k for k in keys if not any(k in b.jump_targets for b in scfg.graph.values())]
    chain, cur = [], heads[0] if heads else keys[0]
    while cur in scfg.graph and cur not in chain and len(chain) <= len(keys):
        chain.append(cur)
        jt = scfg.graph[cur].jump_targets
        if len(jt) != 1:
            break
        cur = jt[0]
    closed = cur in chain and len(scfg.graph[chain[-1]].jump_targets) == 1     # the chain runs into itself: begin must be on it
    pool = list(chain) + ([] if closed else [r.choice(keys)])
    return {'scfg': scfg, 'begin': r.choice(pool)}


def region_chain(g: Gen, fwd, depth, name='x', header=None):
    """a region block whose exiting chain (depth levels) mirrors the forward targets `fwd`; latch back edges inside"""
    r = g.rng

    def level(d, nm):
        be = ('h' + nm,) if r.random() < 0.5 else ()
        if header is not None and r.random() < 0.3:
            be = be + (header,)
        jt = tuple(fwd) + be if r.random() < 0.5 else be + tuple(fwd)
        if d == 0:
            if r.random() < 0.3 and len(jt) >= 1 and len(set(jt)) == len(jt):
                return g.bb.SyntheticExitingLatch(name=nm, _jump_targets=jt, backedges=be, variable='v',
                                                  branch_value_table={i: t for i, t in enumerate(jt)})
            return g.bb.BasicBlock(name=nm, _jump_targets=jt, backedges=be)
        sub = g.SCFG({'x' + nm: level(d - 1, 'x' + nm), 'o' + nm: g.bb.BasicBlock(name='o' + nm, _jump_targets=('x' + nm,))},
                     name_gen=g.NameGenerator())
        return g.bb.RegionBlock(name=nm, _jump_targets=jt, backedges=be, kind='loop', header='x' + nm, subregion=sub,
                                exiting='x' + nm, parent_region=None)
    return level(depth, name)


def gen_sync_exiting(g: Gen, c: Contract):
    r = g.rng
    fwd = g.names(0, 3, distinct=True)
    blk = region_chain(g, fwd, r.choice([1, 1, 2, 3]))
    if r.random() < 0.1:
        return {'block': g.block()}
    # the region after an edit: renamed position by position, a target appended, or targets merged
    new = list(blk._jump_targets)
    q = r.random()
    pool = ['n', 'm'] + UNIVERSE
    if q < 0.6:
        new = [t if (t in blk.backedges or r.random() < 0.5) else r.choice(pool) for t in new]
    elif q < 0.8:
        new = new + ['n']
    elif len(fwd) >= 2:
        new = [t for t in new if t in blk.backedges or t == fwd[-1]]
    import dataclasses
    return {'block': dataclasses.replace(blk, _jump_targets=tuple(new))}


def gen_update_exiting(g: Gen, c: Contract):
    r = g.rng
    fwd = g.names(0, 3, distinct=True)
    header = r.choice(fwd + ['hh']) if fwd else 'hh'
    blk = region_chain(g, fwd, r.choice([1, 1, 2, 3]), header=header)
    return {'region_block': blk if r.random() < 0.95 else g.block(), 'new_region_header': header,
            'new_region_name': 'n' if r.random() < 0.9 else r.choice(UNIVERSE)}


def gen_branch_pairs(g: Gen, c: Contract):
    """a level (as for the view iterator) with the immediate (post-)dominator maps of the real helpers, or random maps"""
    r = g.rng
    args = gen_view(g, c)
    scfg = args['self'].scfg
    keys = list(scfg.graph)
    imm = post = None
    if r.random() < 0.6:
        try:
            from numba_scfg.core import transformations as T
            imm, post = T._imm_doms(T._doms(scfg)), T._imm_doms(T._post_doms(scfg))
        except Exception:
            imm = None
    if imm is None:
        pool = keys + ['zz']
        imm = {k: r.choice(pool) for k in pool if r.random() < 0.9}
        post = {k: r.choice(pool) for k in keys if r.random() < 0.8}
    return {'scfg': scfg, 'immdoms': imm, 'postimmdoms': post}


def gen_wblock(g: Gen, c: Contract):
    import ast as _ast
    from numba_scfg.core.datastructures.ast_transforms import WritableASTBlock
    r = g.rng
    mk = [lambda: _ast.Pass(), lambda: _ast.Return(value=None), lambda: _ast.Break(), lambda: _ast.Continue(),
          lambda: _ast.Expr(value=_ast.Constant(value=1)), lambda: _ast.Assign(targets=[_ast.Name(id='x', ctx=_ast.Store())], value=_ast.Constant(value=0))]
    blk = WritableASTBlock(str(r.randint(0, 9)), [r.choice(mk)() for _ in range(r.randint(0, 3))], [str(r.randint(0, 9)) for _ in range(r.randint(0, 2))])
    args = {'self': blk}
    for n, t in c.params.items():
        if n == 'self':
            continue
        if t == 'pyclass':
            args[n] = r.choice([_ast.Return, _ast.Break, _ast.Continue, _ast.Pass, _ast.stmt, _ast.expr])
        elif t == 'tuple[int]':
            args[n] = tuple(r.randint(0, 12) for _ in range(r.randint(0, 3)))
        else:
            args[n] = r.randint(0, 12)
    return args


def gen_region_field(g: Gen, c: Contract):
    r = g.rng
    blk = g.bb.RegionBlock(name=g.name(), _jump_targets=tuple(g.names(0, 2)), backedges=(), kind=r.choice(['loop', 'branch', 'meta']),
                           header=g.name(), subregion=None, exiting=g.name(), parent_region=None)
    pn = [k for k in c.params if k != 'self'][0]
    return {'self': blk, pn: g.name(extra=['n'])}


def gen_extract_region(g: Gen, c: Contract):
    """a top-level graph, some of whose blocks are regions (with exiting chains that mirror their targets), and a subset with
    one header and one exiting block (several subsets are tried); the parent is a meta region naming some block"""
    r = g.rng
    scfg = g.scfg(with_be=0.05, ext=0.5)
    for k in list(scfg.graph):
        b = scfg.graph[k]
        if not isinstance(b, g.bb.SyntheticBranch) and not b.backedges and r.random() < 0.35:
            hdr = r.choice(list(b._jump_targets)) if b._jump_targets and r.random() < 0.8 else None
            scfg.graph[k] = region_chain(g, list(b._jump_targets), r.choice([1, 1, 2]), name=k, header=hdr)
    keys = list(scfg.graph)
    sub = set(r.sample(keys, r.randint(1, min(3, len(keys)))))
    for _ in range(30):
        cand = set(r.sample(keys, r.randint(1, min(3, len(keys)))))
        try:
            hs, _es = scfg.find_headers_and_entries(cand)
            xs, _ = scfg.find_exiting_and_exits(cand)
        except Exception:
            continue
        if len(hs) == 1 and len(xs) == 1:
            sub = cand
            break
    names = sorted(sub) + keys
    parent = g.bb.RegionBlock(name='meta_region_0', _jump_targets=(), backedges=(), kind='meta', header=r.choice(names),
                              subregion=None, exiting=r.choice(names), parent_region=None)
    return {'scfg': scfg, 'region_blocks': sub, 'region_kind': r.choice(['loop', 'head', 'branch', 'tail', 'meta']),
            'parent_region': parent}


def gen_iter_scfg(g: Gen, c: Contract):
    """a level with (mostly) a unique head, some of whose blocks are regions with fully iterable, uniquely named sub-graphs"""
    r = g.rng
    args = gen_view(g, c)
    scfg = args['self'].scfg
    for k in list(scfg.graph):
        b = scfg.graph[k]
        if type(b).__name__ == 'RegionBlock' or isinstance(b, g.bb.SyntheticBranch):
            if type(b).__name__ == 'RegionBlock':
                # gen_view's regions hold a single block named 'x' in every region: rename per region
                inner = b.subregion.graph.pop('x')
                import dataclasses
                b.subregion.graph['x' + k] = dataclasses.replace(inner, name='x' + k)
                scfg.graph[k] = dataclasses.replace(b, header='x' + k, exiting='x' + k)
            continue
        if r.random() < 0.25:
            reg = region_chain(g, list(b._jump_targets), r.choice([1, 2]), name=k)
            scfg.graph[k] = reg
    if r.random() < 0.05 and len(scfg.graph) > 1:
        # a name clash across the hierarchy (precondition `unique-*` false: case skipped)
        ks = list(scfg.graph)
        for k in ks:
            if type(scfg.graph[k]).__name__ == 'RegionBlock':
                sub = scfg.graph[k].subregion
                other = [x for x in ks if x != k]
                if other:
                    sub.graph[other[0]] = g.bb.BasicBlock(name=other[0], _jump_targets=())
                break
    return {'self': scfg}


def gen_scfg_only(g: Gen, c: Contract):
    return {'scfg': g.scfg(with_be=0.15, ext=0.4)}


GENERATORS = {'wblock': gen_wblock, 'branch_pairs': gen_branch_pairs, 'extract_region': gen_extract_region, 'region_field': gen_region_field, 'iter_scfg': gen_iter_scfg, 'sync_exiting': gen_sync_exiting, 'update_exiting': gen_update_exiting, 'head_blocks': gen_head_blocks, 'branch_regions': gen_branch_regions, 'view': gen_view, 'scfg_only': gen_scfg_only, 'dom_tables': gen_dom_tables, 'stream': gen_stream, 'flowinfo': gen_flowinfo, 'block_bcmap': gen_block_bcmap, 'namegen': gen_namegen, 'insert_ctrl': gen_insert_ctrl, 'tails_exits': gen_tails_exits, 'graph_and_pair': gen_graph_and_pair, 'graph_and_subset': gen_graph_and_subset, 'insert': gen_insert, 'branch_replace': gen_branch_replace}


def gen_args(g: Gen, c: Contract):
    if c.gen:
        return GENERATORS[c.gen](g, c)
    return {n: g.value(S.parse_type(t), c) for n, t in c.params.items()}


def snapshot(v, top=True):
    """pre-state copy for `old`: blocks are frozen values, so a graph is copied level-locally (same block objects, hence the
    same sub-graph objects inside region blocks: a region is compared by the identity of its sub-graph, as in value mode;
    what happens inside sub-graphs is the hierarchy clause's business)"""
    if top and type(v).__name__ == 'RegionBlock':
        return copy.copy(v)       # a region block passed as an argument may be written in place (replace_header / replace_exiting)
    if type(v).__name__ == 'SCFG':
        from numba_scfg.core.datastructures.scfg import SCFG, NameGenerator
        c = SCFG(dict(v.graph), name_gen=NameGenerator(kinds=dict(v.name_gen.kinds)))
        c.name_gen.kinds.clear()
        c.name_gen.kinds.update(v.name_gen.kinds)
        object.__setattr__(c, 'region', v.region)
        return c
    if type(v).__name__ == 'ConcealedRegionView':
        return snapshot(v.scfg).concealed_region_view
    if isinstance(v, list):
        return [snapshot(x, False) for x in v]
    if isinstance(v, tuple):
        return tuple(snapshot(x, False) for x in v)
    if isinstance(v, (set, frozenset)):
        return set(v)
    if type(v).__name__ == 'defaultdict':
        d = type(v)(v.default_factory)
        for k, x in v.items():
            d[k] = set(x) if isinstance(x, set) else copy.copy(x)
        return d
    if isinstance(v, dict):
        return {k: snapshot(x, False) for k, x in v.items()}
    if type(v).__name__ in ('NameGenerator', 'FlowInfo'):
        return copy.deepcopy(v)
    if type(v).__name__ == 'WritableASTBlock':
        c = copy.copy(v)          # same ast node objects (identity is what `isa` looks at), own lists
        c.instructions, c.jump_targets = list(v.instructions), list(v.jump_targets)
        return c
    return v


def describe(v):
    import dataclasses
    if dataclasses.is_dataclass(v) and not isinstance(v, type):
        if type(v).__name__ == 'NameGenerator':
            return {'NameGenerator': dict(v.kinds)}
        if type(v).__name__ == 'FlowInfo':
            return {'FlowInfo': {'block_offsets': sorted(v.block_offsets), 'jump_insts': {str(k): list(t) for k, t in v.jump_insts.items()}, 'last_offset': v.last_offset}}
        if type(v).__name__ == 'SCFG':
            return {'SCFG': {k: describe(b) for k, b in v.graph.items()}, 'kinds': dict(v.name_gen.kinds)}
        if type(v).__name__ == 'RegionBlock':
            return {'class': 'RegionBlock', 'name': v.name, '_jump_targets': list(v._jump_targets), 'backedges': list(v.backedges),
                    'kind': v.kind, 'header': v.header, 'exiting': v.exiting,
                    'subregion': None if v.subregion is None else describe(v.subregion)}
        d = {'class': type(v).__name__}
        for f in dataclasses.fields(v):
            x = getattr(v, f.name)
            if f.name in ('parent_region', 'subregion', 'tree'):
                continue
            d[f.name] = describe(x)
        return d
    if type(v).__name__ == 'ConcealedRegionView':
        return {'ConcealedRegionView': describe(v.scfg)}
    if type(v).__name__ == 'WritableASTBlock':
        return {'WritableASTBlock': {'name': v.name, 'instructions': [type(i).__name__ for i in v.instructions],
                                     'jump_targets': list(v.jump_targets)}}
    if isinstance(v, (list, tuple)):
        return [describe(x) for x in v]
    if isinstance(v, (set, frozenset)):
        return {'set': sorted(describe(x) for x in v)}
    if type(v).__name__ == 'defaultdict':
        return {'defaultdict_set': {str(k): sorted(x) for k, x in v.items() if x}}
    if isinstance(v, dict):
        return {str(k): describe(x) for k, x in v.items()}
    if isinstance(v, type):
        return {'type': v.__name__}
    if type(v).__name__ == 'SimpleNamespace':
        return {'inst': dict(vars(v))}
    return v


def rebuild(d, g: Gen = None):
    """Inverse of describe (for replay files)."""
    from numba_scfg.core.datastructures import basic_block as bb
    from numba_scfg.core.datastructures.scfg import SCFG, NameGenerator
    if isinstance(d, dict) and 'inst' in d:
        import types as _t
        return _t.SimpleNamespace(**d['inst'])
    if isinstance(d, dict) and 'FlowInfo' in d:
        from numba_scfg.core.datastructures.flow_info import FlowInfo
        f = d['FlowInfo']
        return FlowInfo(block_offsets=set(f['block_offsets']), jump_insts={int(k): tuple(t) for k, t in f['jump_insts'].items()}, last_offset=f['last_offset'])
    if isinstance(d, dict) and 'NameGenerator' in d:
        return NameGenerator(kinds=dict(d['NameGenerator']))
    if isinstance(d, dict) and 'ConcealedRegionView' in d:
        return rebuild(d['ConcealedRegionView']).concealed_region_view
    if isinstance(d, dict) and 'SCFG' in d:
        return SCFG({k: rebuild(b) for k, b in d['SCFG'].items()}, name_gen=NameGenerator(kinds=dict(d.get('kinds', {}))))
    if isinstance(d, dict) and d.get('class') == 'RegionBlock':
        return bb.RegionBlock(name=d['name'], _jump_targets=tuple(d['_jump_targets']), backedges=tuple(d['backedges']), kind=d['kind'],
                              header=d['header'], exiting=d['exiting'], subregion=rebuild(d['subregion']) if d.get('subregion') else None,
                              parent_region=None)
    if isinstance(d, dict) and 'class' in d:
        cls = getattr(bb, d['class'])
        kw = {}
        for k, v in d.items():
            if k == 'class':
                continue
            if k in ('_jump_targets', 'backedges'):
                kw[k] = tuple(v)
            elif k == 'branch_value_table':
                kw[k] = {int(a): b for a, b in v.items()}
            elif k == 'variable_assignment':
                kw[k] = dict(v)
            else:
                kw[k] = v
        return cls(**kw)
    if isinstance(d, dict) and 'defaultdict_set' in d:
        import collections
        dd = collections.defaultdict(set)
        for k, x in d['defaultdict_set'].items():
            dd[k] = set(x)
        return dd
    if isinstance(d, dict) and 'set' in d:
        return set(rebuild(x) for x in d['set'])
    if isinstance(d, dict) and 'type' in d:
        import ast as _ast
        return getattr(bb, d['type']) if hasattr(bb, d['type']) else getattr(_ast, d['type'])
    if isinstance(d, dict) and 'WritableASTBlock' in d:
        import ast as _ast
        from numba_scfg.core.datastructures.ast_transforms import WritableASTBlock
        w = d['WritableASTBlock']
        return WritableASTBlock(w['name'], [getattr(_ast, n)() for n in w['instructions']], list(w['jump_targets']))
    if isinstance(d, list):
        return [rebuild(x) for x in d]
    return d


class Outcome:
    def __init__(self, kind, detail=None):
        self.kind, self.detail = kind, detail   # 'ok' | 'skip' | 'known' | 'fail'


def it_ok(c, env, it):
    try:
        return bool(ceval(c.yield_check, dict(env, it=it)))
    except Exception:
        return False


def heap_namespace(args):
    """run-time meaning of the heap-mode vocabulary (DESIGN 11.7): a sub-graph identity is the SCFG object of a region;
    all_subs() are the sub-graphs nested under the arguments, graph_at_entry(s) their block dictionaries before the call"""
    subs, depth, root = [], {}, {}

    def walk(blk, d, rt):
        if type(blk).__name__ == 'RegionBlock' and blk.subregion is not None:
            sg = blk.subregion
            if any(sg is x for x in subs):
                depth['$shared'] = True
                return
            subs.append(sg)
            depth[id(sg)] = d
            root[id(sg)] = rt if rt is not None else id(sg)
            for b in list(sg.graph.values()):
                walk(b, d + 1, root[id(sg)])
    for v in args.values():
        if type(v).__name__ == 'SCFG':
            for b in list(v.graph.values()):
                walk(b, 1, None)
        else:
            walk(v, 1, None)
    at_entry = {id(sg): dict(sg.graph) for sg in subs}
    return {
        'all_subs': lambda: list(subs),
        'graph_at_entry': lambda sg: at_entry[id(sg)],
        'graph_now': lambda sg: sg.graph,
        'same_graph': lambda sg: dict(sg.graph) == at_entry[id(sg)],
        'sub_depth': lambda sg: depth.get(id(sg), 0),
        'chain_root': lambda sg: root.get(id(sg), id(sg)),
        'nesting_wf': lambda *a: not depth.get('$shared'),
        'heap_unchanged': lambda: all(dict(sg.graph) == at_entry[id(sg)] for sg in subs),
        'fact': lambda *a: True,
    }


def check_case(c: Contract, fn, args, ns=None, ignore_known=False):
    """Run the real function on args under the contract. Returns Outcome."""
    ns = ns or runtime_namespace()
    if c.heap:
        ns = dict(ns)
        ns.update(heap_namespace(args))
    pre = view_args(c, {k: snapshot(v) for k, v in args.items()})
    env = dict(ns)
    env.update(view_args(c, args))
    try:
        for cn, text in c.requires.items():
            if not ceval(text, env):
                return Outcome('skip', cn)
    except Exception as e:
        return Outcome('skip', 'requires raised %r' % (e,))
    for kid, text in ({} if ignore_known else c.known).items():
        try:
            if ceval(text, env):
                return Outcome('known', kid)
        except Exception:
            pass
    hier_pre = None
    preds_key = 'predecessors' if 'predecessors' in args else ('tails' if 'tails' in args else None)
    if preds_key and type(args.get('self')).__name__ == 'SCFG':
        from rtc.wrappers import hierarchy_pre
        hier_pre = hierarchy_pre(args['self'], args[preds_key])
    allowed = {}
    for exc, text in c.raises.items():
        try:
            allowed[exc] = bool(ceval(text, env))
        except Exception:
            allowed[exc] = False
    try:
        import inspect as _insp
        va = [n for n, prm in _insp.signature(fn).parameters.items() if prm.kind == prm.VAR_POSITIONAL]
        if va:
            fixed = [n for n, prm in _insp.signature(fn).parameters.items() if prm.kind == prm.POSITIONAL_OR_KEYWORD]
            res = fn(*[args[n] for n in fixed], *args[va[0]])
        else:
            res = fn(**args)
        if c.yields:
            items = list(res)
            if c.yield_check:
                for it in items:
                    if not it_ok(c, env, it):
                        return Outcome('fail', {'clause': 'yield-item', 'observed': describe(it)})
            if isinstance(c.yield_key, str):
                items = [getattr(it, c.yield_key) for it in items]
            elif c.yield_key is not None:
                items = [it[c.yield_key] for it in items]
            if len(items) != len(set(items)):
                return Outcome('fail', {'clause': 'yield-once', 'observed': items})
            res = set(items)
    except Exception as e:
        en = type(e).__name__
        if allowed.get(en):
            return Outcome('ok', 'raised ' + en)
        import traceback
        tb = traceback.extract_tb(e.__traceback__)
        return Outcome('fail', {'clause': 'noraise', 'exception': en, 'message': str(e)[:200],
                                'frames': ['%s:%s:%d' % (os.path.basename(f.filename), f.name, f.lineno) for f in tb[-3:]]})
    env = dict(ns)
    env.update(view_args(c, args))
    env['old'] = types.SimpleNamespace(**pre)
    env['result'] = res
    for cn, text in list(c.ensures.items()) + list(c.runtime_ensures.items()):
        try:
            ok = ceval(text, env)
        except Exception as e:
            return Outcome('fail', {'clause': 'post[%s]' % cn, 'error': repr(e)[:200]})
        if not ok:
            return Outcome('fail', {'clause': 'post[%s]' % cn, 'result': describe(res)})
    if hier_pre:
        # hierarchy clause (C14/C04): the exiting chain of a region predecessor is re-targeted identically down to the leaf
        from rtc.wrappers import hierarchy_post
        msg = hierarchy_post(args['self'], args[preds_key], hier_pre)
        if msg:
            return Outcome('fail', {'clause': 'post[hierarchy]', 'message': msg})
    # frame: parameters not listed in `modifies` keep their value
    for n in c.params:
        if any(m == n or m.startswith(n + '.') for m in c.modifies):
            if type(args[n]).__name__ == 'WritableASTBlock' and n + '.instructions' not in c.modifies and n not in c.modifies:
                if len(args[n].instructions) != len(pre[n].instructions) or any(x is not y for x, y in zip(args[n].instructions, pre[n].instructions)):
                    return Outcome('fail', {'clause': 'frame[%s.instructions]' % n})
            if type(args[n]).__name__ == 'SCFG':
                if 'self.name_gen.kinds' not in c.modifies and n == 'self' and args[n].name_gen.kinds != pre[n].name_gen.kinds:
                    return Outcome('fail', {'clause': 'frame[%s.name_gen.kinds]' % n})
                if n + '.graph' not in c.modifies and args[n].graph != pre[n].graph:
                    return Outcome('fail', {'clause': 'frame[%s.graph]' % n})
            continue
        try:
            if isinstance(pre[n], TotalView):
                same = pre[n] == args[n]
                if not same:
                    return Outcome('fail', {'clause': 'frame[%s]' % n})
                continue
            if type(args[n]).__name__ == 'WritableASTBlock':
                # no __eq__: compared field by field (the same node objects in the same order)
                a_, b_ = args[n], pre[n]
                same = a_.name == b_.name and a_.jump_targets == b_.jump_targets and len(a_.instructions) == len(b_.instructions) \
                    and all(x is y for x, y in zip(a_.instructions, b_.instructions))
                if not same:
                    return Outcome('fail', {'clause': 'frame[%s]' % n})
                continue
            same = args[n] == pre[n] and (type(args[n]).__name__ != 'SCFG' or args[n].name_gen.kinds == pre[n].name_gen.kinds)
        except Exception:
            same = True
        if not same:
            return Outcome('fail', {'clause': 'frame[%s]' % n})
    return Outcome('ok')


def fuzz(qual, n_cases=300, seed=0, stop_at_first=True):
    """Returns dict(accepted, skipped, known, failures=[{args, detail}])."""
    c = REGISTRY[qual]
    fn, mod = real_function(qual)
    rng = random.Random((seed, qual).__repr__())
    g = Gen(rng)
    ns = runtime_namespace()
    out = {'qual': qual, 'accepted': 0, 'skipped': 0, 'known': 0, 'failures': [], 'tried': 0, 'samples': []}
    tries = 0
    while out['accepted'] < n_cases and tries < n_cases * 40:
        tries += 1
        try:
            args = gen_args(g, c)
        except NotImplementedError as e:
            out['error'] = str(e)
            break
        desc = {k: describe(v) for k, v in args.items()}
        o = check_case(c, fn, args, ns)
        if o.kind == 'skip':
            out['skipped'] += 1
        elif o.kind == 'known':
            out['known'] += 1
        elif o.kind == 'ok':
            out['accepted'] += 1
            if len(out['samples']) < 2:
                out['samples'].append(desc)
        else:
            out['accepted'] += 1
            out['failures'].append({'args': desc, 'detail': o.detail})
            if stop_at_first:
                break
    out['tried'] = tries
    return out


def replay(qual, desc_args, ignore_known=False):
    c = REGISTRY[qual]
    fn, mod = real_function(qual)
    args = {k: rebuild(v) for k, v in desc_args.items()}
    return check_case(c, fn, args, ignore_known=ignore_known)


if __name__ == '__main__':
    import contracts  # noqa
    pats = sys.argv[1:]
    for q in REGISTRY:
        if not pats or any(p in q for p in pats):
            r = fuzz(q, 300)
            print(q, {k: v for k, v in r.items() if k not in ('samples', 'failures')})
            for f in r['failures'][:1]:
                print('   FAIL', json.dumps(f)[:600])
