"""Bounded stand-ins for the source front end: C07 (round trip), C08 (CFG interpreter vs CPython),
C10 (static census of the generated tree), sharing one pass over the generated programs."""
from __future__ import annotations
import ast
import os
import re
import sys
import traceback
from collections import Counter

REPO = os.environ.get('VERIF_REPO', '/repo')
if REPO not in sys.path:
    sys.path.insert(0, REPO)
import logging  # noqa: E402
logging.disable(logging.CRITICAL)

from rtc import progs  # noqa: E402

REGION_PROPS = {'C07': ('R8', 'R9a', 'R9b', 'R14', 'R15', 'R16', 'R17'), 'C08': ('R8', 'R9a', 'R9b', 'R16', 'R17'), 'C10': ('R14', 'R15', 'R16'),
                'C17': ('R15', 'R16')}
INTERNAL = (AssertionError, AttributeError, KeyError, IndexError, RuntimeError, TypeError, ValueError, NameError, RecursionError)


def frames(e):
    tb = traceback.extract_tb(e.__traceback__)
    return [('%s:%s' % (os.path.basename(f.filename), f.name)) for f in tb if '/numba_scfg/' in f.filename][-3:]


# ------------------------------------------------------------------ C08: interpret the CFG
class Stop(Exception):
    pass


def interp_cfg(scfg, oracle, limit=25000):      # above the line-event budget of the reference run (a block visit costs at least one line event there)
    env = {'o': oracle}
    # the genesis block is named 0; when it was pruned as empty the entry is the next block created
    name = '0' if '0' in scfg.graph else min(scfg.graph, key=lambda k: int(k) if k.isdigit() else 10 ** 9)
    steps = 0
    while True:
        steps += 1
        if steps > limit:
            raise TimeoutError('block limit')
        b = scfg.graph[name]
        tree = list(b.tree)
        jt = b._jump_targets
        test = None
        if len(jt) == 2:
            test = tree[-1]
            tree = tree[:-1]
        for st in tree:
            if isinstance(st, ast.Return):
                if st.value is None:
                    return None
                return eval(compile(ast.fix_missing_locations(ast.Expression(st.value)), '<cfg>', 'eval'), env)
            if isinstance(st, ast.expr):
                eval(compile(ast.fix_missing_locations(ast.Expression(st)), '<cfg>', 'eval'), env)
                continue
            exec(compile(ast.fix_missing_locations(ast.Module([st], [])), '<cfg>', 'exec'), env)
        if len(jt) == 0:
            return None
        if len(jt) == 1:
            name = jt[0]
            continue
        e = test.value if isinstance(test, ast.Expr) else test
        v = eval(compile(ast.fix_missing_locations(ast.Expression(e)), '<cfg>', 'eval'), env)
        name = jt[0] if v else jt[1]


def run_cfg(scfg, script):
    o = progs.Oracle(script)
    try:
        r = ('ok', repr(interp_cfg(scfg, o)))
    except TimeoutError:
        r = ('timeout', None)
    except Exception as e:
        r = ('exc', type(e).__name__)
    return r, tuple(map(repr, o.log))


def check_c08(src, ref):
    """ref: script -> (result, log) of the original function."""
    from numba_scfg.core.datastructures.ast_transforms import AST2SCFGTransformer
    try:
        scfg = AST2SCFGTransformer(src).transform_to_SCFG()
    except NotImplementedError:
        return ('refused', None)
    except BaseException as e:
        if isinstance(e, (KeyboardInterrupt, SystemExit)):
            raise
        return ('fail', {'kind': 'internal:' + type(e).__name__, 'detail': frames(e)})
    # every reachable statement in exactly one block: statement objects are unique across blocks
    seen = set()
    for b in scfg.graph.values():
        for st in b.tree:
            if id(st) in seen:
                return ('fail', {'kind': 'statement-in-two-blocks', 'detail': ast.unparse(st)[:60]})
            seen.add(id(st))
    for script, want in ref.items():
        # the transformer mutates its input tree: rebuild the graph for every run
        scfg = AST2SCFGTransformer(src).transform_to_SCFG()
        got = run_cfg(scfg, script)
        if got != want:
            return ('fail', {'kind': 'cfg-behaviour', 'script': list(script), 'want': str(want)[:300], 'got': str(got)[:300]})
    return ('ok', None)


# ------------------------------------------------------------------ C07 / C10
def transform(src):
    from numba_scfg.core.datastructures.ast_transforms import AST2SCFG, SCFG2AST
    scfg = AST2SCFG(src)
    scfg.restructure()
    out = SCFG2AST(src, scfg)
    return scfg, out


# ------------------------------------------------------------------ inside the region of finding R8
class ConstOracle(progs.Oracle):
    """every access returns a value that depends on its tag only: runs of the original and of the translation see the
    same values whatever the order of evaluation, so finding R8 (and/or operands evaluated early, possibly without need)
    cannot change the result - only the number of evaluations of the hoisted operands"""

    def __init__(self, seed):
        super().__init__(())
        self.seed = seed

    def _v(self, key):
        import zlib
        return zlib.crc32(repr((self.seed, key)).encode()) % 3

    def __call__(self, tag):
        self.log.append(('call', tag))
        return self._v(('call', tag))

    @property
    def p(self):
        self.log.append(('attr',))
        return self._v(('attr',))

    def __getitem__(self, k):
        self.log.append(('item', k))
        return self._v(('item', k))

    def it(self, tag):
        self.log.append(('iter', tag))
        return list(range(self._v(('iter', tag))))

    def pairs(self, tag):
        self.log.append(('pairs', tag))
        return [(j, j + 10) for j in range(self._v(('pairs', tag)))]

    def boom(self, tag):
        self.log.append(('boom', tag))
        return 1


def hoisted_keys(src):
    """log keys of the oracle accesses that lie inside an and/or in R8 position (operand of arithmetic, comparison, call
    argument, or later operand of another and/or)"""
    t = ast.parse(src)
    par = {}
    for n in ast.walk(t):
        for c in ast.iter_child_nodes(n):
            par[c] = n
    keys, any_attr = set(), False
    for n in ast.walk(t):
        if not isinstance(n, ast.BoolOp):
            continue
        p = par.get(n)
        while isinstance(p, ast.BoolOp):
            p = par.get(p)
        q = par.get(n)
        r8 = isinstance(p, (ast.BinOp, ast.Compare, ast.UnaryOp, ast.IfExp, ast.Subscript, ast.List, ast.Tuple, ast.keyword)) \
            or isinstance(p, ast.Call) or (isinstance(q, ast.BoolOp) and q.values[0] is not n)
        if not r8:
            continue
        for x in ast.walk(n):
            if isinstance(x, ast.Call) and isinstance(x.func, ast.Name) and x.func.id == 'o' and x.args and isinstance(x.args[0], ast.Constant):
                keys.add(('call', x.args[0].value))
            if isinstance(x, ast.Call) and isinstance(x.func, ast.Attribute) and isinstance(x.func.value, ast.Name) and x.func.value.id == 'o' \
                    and x.args and isinstance(x.args[0], ast.Constant):
                keys.add(({'it': 'iter', 'boom': 'boom', 'pairs': 'pairs'}.get(x.func.attr, x.func.attr), x.args[0].value))
            if isinstance(x, ast.Subscript) and isinstance(x.value, ast.Name) and x.value.id == 'o' and isinstance(x.slice, ast.Constant):
                keys.add(('item', x.slice.value))
            if isinstance(x, ast.Attribute) and isinstance(x.value, ast.Name) and x.value.id == 'o' and x.attr == 'p':
                keys.add(('attr',))
    return keys


def run_const(callable_, seed, limit=20000):
    import sys
    o = ConstOracle(seed)
    steps = [0]

    def tracer(frame, event, arg):
        steps[0] += 1
        if steps[0] > limit:
            raise TimeoutError('step limit')
        return tracer
    old = sys.gettrace()
    sys.settrace(tracer)
    try:
        try:
            r = ('ok', repr(callable_(o)))
        except TimeoutError:
            r = ('timeout', None)
        except Exception as e:
            r = ('exc', type(e).__name__)
    finally:
        sys.settrace(old)
    return r, Counter(k for k in o.log if k[0] != 'c'), [k for k in o.log if k[0] != 'c']


def check_inside_r8(src, seeds=(1, 2, 3, 4, 5, 6)):
    """programs in the region of finding R8 are still compared, under the tag-constant oracle: same result, the accesses
    outside the hoisted and/or operands happen equally often and in the same order, the hoisted ones at least as often.
    Returns {'C07': verdict, 'C08': verdict}"""
    from numba_scfg.core.datastructures.ast_transforms import AST2SCFGTransformer
    out = {'C07': ('ok', None), 'C08': ('ok', None)}
    hk = hoisted_keys(src)
    fn = progs.compile_fn(src)
    try:
        scfg, tree = transform(src)
        tf = progs.compile_fn(ast.unparse(ast.fix_missing_locations(tree)), 'transformed_f')
    except BaseException:
        tf = None

    def differs(ref, got):
        (r0, c0, l0), (r1, c1, l1) = ref, got
        if r0 != r1:
            return {'kind': 'r8-region:result', 'want': str(r0)[:100], 'got': str(r1)[:100]}
        if [k for k in l0 if k not in hk] != [k for k in l1 if k not in hk]:
            return {'kind': 'r8-region:accesses-outside-hoisted-operands', 'want': str([k for k in l0 if k not in hk])[:200],
                    'got': str([k for k in l1 if k not in hk])[:200]}
        for k in hk:
            if c1.get(k, 0) < c0.get(k, 0):
                return {'kind': 'r8-region:hoisted-operand-skipped', 'key': str(k)}
        return None
    for sd in seeds:
        # the step limit counts traced events: the reference must stay far below the budget given to the translation and to
        # the CFG interpreter (whose own lines are traced too), otherwise a 'timeout' of the latter is an artefact of the
        # harness - such seeds are inconclusive and skipped
        ref = run_const(fn, sd, limit=2500)
        if ref[0][0] == 'timeout':
            continue
        if tf is not None and out['C07'][0] == 'ok':
            d = differs(ref, run_const(tf, sd, limit=500000))
            if d:
                out['C07'] = ('fail', dict(d, seed=sd))
        if out['C08'][0] == 'ok':
            try:
                g = AST2SCFGTransformer(src).transform_to_SCFG()
                d = differs(ref, run_const(lambda o: interp_cfg(g, o), sd, limit=500000))
                if d:
                    out['C08'] = ('fail', dict(d, seed=sd))
            except NotImplementedError:
                pass
            except BaseException as e:
                if isinstance(e, (KeyboardInterrupt, SystemExit)):
                    raise
    return out


def rekeyed(scfg):
    """replace, in place, every branching block whose value table is not in ascending key order by the equal block
    with the table in that order; returns the names of the blocks touched"""
    import dataclasses
    from numba_scfg.core.datastructures.basic_block import SyntheticBranch, RegionBlock
    touched = []
    st = [scfg]
    while st:
        g = st.pop()
        for k, b in list(g.graph.items()):
            if isinstance(b, RegionBlock) and b.subregion is not None:
                st.append(b.subregion)
            elif isinstance(b, SyntheticBranch):
                t = b.branch_value_table
                if list(t) != sorted(t):
                    nb = dataclasses.replace(b, branch_value_table={kk: t[kk] for kk in sorted(t)})
                    assert nb == b
                    g.graph[k] = nb
                    touched.append(k)
    return touched


def check_c07_c10(src, ref):
    res = {}
    try:
        scfg, out = transform(src)
    except NotImplementedError:
        return {'C07': ('refused', None), 'C10': ('refused', None)}
    except BaseException as e:     # anything but NotImplementedError is an internal error of the pipeline
        if isinstance(e, (KeyboardInterrupt, SystemExit)):
            raise
        f = ('fail', {'kind': 'internal:' + type(e).__name__, 'detail': frames(e)})
        return {'C07': f, 'C10': ('skipped', None)}
    # ---- C10 static census
    res['C10'] = census(src, scfg, out)
    if res['C10'][0] == 'ok':
        # code generation must not consume or alter the graph: generating again gives the same text and the
        # statement lists of the blocks are untouched
        from spec.hier import Index
        from numba_scfg.core.datastructures.ast_transforms import SCFG2AST
        from numba_scfg.core.datastructures.basic_block import PythonASTBlock
        before = {n: [id(t) for t in b.tree] for n, (b, _, _) in Index(scfg).tab.items() if isinstance(b, PythonASTBlock)}
        try:
            t1 = ast.unparse(ast.fix_missing_locations(out))
            out2 = SCFG2AST(src, scfg)
            t2 = ast.unparse(ast.fix_missing_locations(out2))
            after = {n: [id(t) for t in b.tree] for n, (b, _, _) in Index(scfg).tab.items() if isinstance(b, PythonASTBlock)}
            if after != before:
                res['C10'] = ('fail', {'kind': 'graph-mutated-by-codegen', 'detail': [n for n in before if before[n] != after.get(n)][:3]})
            elif t1 != t2:
                res['C10'] = ('fail', {'kind': 'second-generation-differs', 'detail': [t1[:200], t2[:200]]})
            else:
                c2 = census(src, scfg, out2)
                if c2[0] != 'ok':
                    res['C10'] = ('fail', {'kind': 'second-generation:' + c2[1]['kind'], 'detail': c2[1]['detail']})
        except Exception as e:
            res['C10'] = ('fail', {'kind': 'second-generation-raises:' + type(e).__name__, 'detail': str(e)[:100]})
    if res['C10'][0] == 'ok':
        # the same restructured graph with every value table written in ascending key order (an equal block: dict equality
        # ignores insertion order; this is also what a dictionary / YAML round trip or a fresh table gives) must generate a
        # tree with the same census
        rk = rekeyed(scfg)
        if rk:
            try:
                from numba_scfg.core.datastructures.ast_transforms import SCFG2AST
                out3 = SCFG2AST(src, scfg)
                c3 = census(src, scfg, out3)
                if c3[0] != 'ok':
                    res['C10'] = ('fail', {'kind': 'rekeyed-table:' + c3[1]['kind'], 'detail': [rk[:2], c3[1]['detail']]})
            except NotImplementedError:
                pass
            except Exception as e:
                res['C10'] = ('fail', {'kind': 'rekeyed-table-raises:' + type(e).__name__, 'detail': str(e)[:100]})
    # ---- C07 behaviour
    try:
        text = ast.unparse(ast.fix_missing_locations(out))
        fn = progs.compile_fn(text, 'transformed_f')
    except Exception as e:
        res['C07'] = ('fail', {'kind': 'does-not-compile:' + type(e).__name__, 'detail': str(e)[:100]})
        return res
    for script, want in ref.items():
        r, log, used = progs.run_fn(fn, script)
        got = (r, tuple(map(repr, log)))
        if got != want:
            res['C07'] = ('fail', {'kind': 'behaviour', 'script': list(script), 'want': str(want)[:300], 'got': str(got)[:300], 'generated': text[:600]})
            return res
    res['C07'] = ('ok', None)
    return res


SCFG_NAME = re.compile(r'^__scfg_.*__$')
CTRL_NAME = re.compile(r'^__scfg_.*_var_[0-9]+__$')


def census(src, scfg, out):
    from spec.hier import Index
    from numba_scfg.core.datastructures.basic_block import PythonASTBlock, SyntheticAssignment
    try:
        text = ast.unparse(ast.fix_missing_locations(out))
        compile(text, '<census>', 'exec')
    except Exception as e:
        return ('fail', {'kind': 'does-not-compile:' + type(e).__name__, 'detail': str(e)[:100]})
    ids = Counter(id(n) for n in ast.walk(out))
    tests = Counter(id(n.test) for n in ast.walk(out) if isinstance(n, ast.If))
    assigns = Counter()
    for n in ast.walk(out):
        if isinstance(n, ast.Assign) and len(n.targets) == 1 and isinstance(n.targets[0], ast.Name) and isinstance(n.value, ast.Constant) \
                and CTRL_NAME.match(n.targets[0].id) and isinstance(n.value.value, int) and not isinstance(n.value.value, bool):
            assigns[(n.targets[0].id, n.value.value)] += 1
    want_assigns = Counter()
    ix = Index(scfg)
    for name, (b, lvl, regions) in ix.tab.items():
        if isinstance(b, SyntheticAssignment):
            for k, v in b.variable_assignment.items():
                want_assigns[(k, v)] += 1
        if isinstance(b, PythonASTBlock):
            tree = list(b.tree)
            if len(b.jump_targets) == 2:
                t = tree.pop()
                cands = [id(t)] + ([id(t.value)] if isinstance(t, ast.Expr) else [])
                c = sum(tests.get(i, 0) for i in cands)
                if c != 1:
                    return ('fail', {'kind': 'test-emitted-%d-times' % c, 'detail': [name, ast.unparse(t)[:60]]})
            for st in tree:
                if isinstance(st, ast.Return) and ids.get(id(st), 0) == 0:
                    # returns in fall-through blocks are rewritten into an assignment of the return value
                    c = ids.get(id(st.value), 0) if st.value is not None else 1
                else:
                    c = ids.get(id(st), 0)
                if c != 1:
                    return ('fail', {'kind': 'statement-emitted-%d-times' % c, 'detail': [name, ast.unparse(st)[:60]]})
    if assigns != want_assigns:
        return ('fail', {'kind': 'synthetic-assignments', 'detail': [sorted((want_assigns - assigns).items())[:3], sorted((assigns - want_assigns).items())[:3]]})
    orig_names = {n.id for n in ast.walk(ast.parse(src)) if isinstance(n, ast.Name)} | {a.arg for a in ast.walk(ast.parse(src)) if isinstance(a, ast.arg)}
    for n in ast.walk(out):
        if isinstance(n, ast.Name) and n.id not in orig_names and not SCFG_NAME.match(n.id) and n.id not in ('iter', 'next'):
            return ('fail', {'kind': 'introduces-name', 'detail': n.id})
    return ('ok', None)


def check_c17(src):
    """C17 on the graphs of the source front end: the graph built from `src` is drawn before and after every restructuring
    stage that succeeds (a stage that raises is the business of C02/C07) and the DOT source is compared with the hierarchy"""
    from numba_scfg.core.datastructures.ast_transforms import AST2SCFG
    from numba_scfg.rendering.rendering import SCFGRenderer
    from rtc import prop_c17
    try:
        scfg = AST2SCFG(src)
    except NotImplementedError:
        return ('refused', None)
    except Exception:
        return ('skipped', {'kind': 'front-end-raises'})
    for stage in ('input', 'join', 'loop', 'branch'):
        try:
            if stage == 'join':
                scfg.join_returns()
            elif stage == 'loop':
                scfg.restructure_loop()
            elif stage == 'branch':
                scfg.restructure_branch()
        except Exception:
            break
        try:
            prop_c17.check_render(scfg, SCFGRenderer(scfg).g.source, 'scfg')
        except prop_c17.Bad as e:
            return ('fail', {'kind': e.args[0][0], 'stage': stage, 'detail': repr(e.args[0][1:])[:200]})
        except Exception as e:
            if type(e).__name__ == 'Bad' and e.args and isinstance(e.args[0], tuple):      # the hierarchy index's own complaint (spec.hier)
                return ('fail', {'kind': 'graph-' + str(e.args[0][0]), 'stage': stage, 'detail': repr(e.args[0][1:])[:200]})
            return ('fail', {'kind': 'render-raises', 'stage': stage, 'detail': repr(e)[:160]})
    return ('ok', None)


def known_region(src):
    """Syntactic / front-end-CFG predicates of the recorded findings (DESIGN 2.9): a failure of a program that lies
    in none of these regions is a new violation."""
    from numba_scfg.core.datastructures.ast_transforms import AST2SCFGTransformer
    out = set()
    t = ast.parse(src)
    par = {}
    for n in ast.walk(t):
        for c in ast.iter_child_nodes(n):
            par[c] = n
    for n in ast.walk(t):
        if isinstance(n, ast.BoolOp):
            p = par.get(n)
            while isinstance(p, ast.BoolOp):
                p = par.get(p)
            if isinstance(p, (ast.BinOp, ast.Compare)) or (isinstance(p, ast.Call) and n in p.args):
                out.add('R8')      # and/or operand hoisted out of its evaluation order
            q = par.get(n)
            if isinstance(q, ast.BoolOp) and q.values[0] is not n:
                out.add('R8')      # and/or nested as a later operand of another and/or: evaluated before the earlier operands
        for fld in ('body', 'orelse'):
            lst = getattr(n, fld, None)
            if isinstance(lst, list) and any(isinstance(st, (ast.Break, ast.Continue, ast.Return)) for st in lst[:-1]):
                out.add('R17')     # statements after break/continue/return in the same list are executed instead of being dead
        if isinstance(n, ast.For):
            if not isinstance(n.target, ast.Name):
                out.add('R9a')     # for-loop target that is not a plain name
            else:
                inside = {id(x) for b in n.body for x in ast.walk(b)}
                aug = {id(a.target) for a in ast.walk(t) if isinstance(a, ast.AugAssign)}     # `x += e` reads x
                for x in ast.walk(t):
                    if isinstance(x, ast.Name) and x.id == n.target.id and (isinstance(x.ctx, ast.Load) or id(x) in aug) and id(x) not in inside:
                        out.add('R9b')   # loop variable observed outside the loop body
    try:
        g = AST2SCFGTransformer(src).transform_to_SCFG().graph
        if any(len(set(b._jump_targets)) != len(b._jump_targets) for b in g.values()):
            out.add('R14')         # the front end emits a block whose two successors coincide
        heads = [k for k in g if not any(k in b._jump_targets for b in g.values())]
        if len(heads) != 1:
            out.add('R15')         # the front end emits a graph without a unique entry (entry is a loop header)
        if any(t not in g for b in g.values() for t in b._jump_targets):
            out.add('R16')         # the front end emits a dangling jump target (chain of pruned empty blocks)
    except Exception:
        pass
    return sorted(out)


def classify(src):
    """expression / statement classes present in the program (for findings keyed by class)"""
    t = ast.parse(src)
    cls = set()
    for n in ast.walk(t):
        if isinstance(n, (ast.If, ast.While)):
            cls.add('test:' + type(n.test).__name__)
        if isinstance(n, ast.For):
            cls.add('for-target:' + type(n.target).__name__)
        if isinstance(n, ast.BoolOp):
            cls.add('boolop')
        if isinstance(n, ast.While) and isinstance(n.test, ast.Constant):
            cls.add('while-const')
    return sorted(cls)


def work(args):
    tier, seed, lo, hi = args
    ps = progs.programs(tier, seed)[lo:hi]
    out = {'programs': 0, 'nontrivial': 0, 'paths': 0, 'fails': [], 'counts': Counter(), 'samples': []}
    for src in ps:
        out['programs'] += 1
        if any(isinstance(n, (ast.If, ast.While, ast.For)) for n in ast.walk(ast.parse(src))):
            out['nontrivial'] += 1
        try:
            fn = progs.compile_fn(src)
            ref = progs.behaviours(fn, max_len=4 if tier == 'quick' else 6, max_runs=120 if tier == 'quick' else 600)
        except Exception as e:
            out['counts']['generator-error'] += 1
            continue
        if any(r[0][0] == 'timeout' for r in ref.values()):
            out['counts']['skipped-nonterminating'] += 1
            continue
        out['paths'] += len(ref)
        try:
            r8 = check_c08(src, ref)
            rr = check_c07_c10(src, ref)
            r17 = check_c17(src)
            kr = known_region(src)
        except BaseException as e:     # a crash of the checker on one program must not take the pass down
            if isinstance(e, (KeyboardInterrupt, SystemExit)):
                raise
            out['counts']['checker-exception:' + type(e).__name__] += 1
            out.setdefault('checker_exceptions', []).append({'source': src, 'error': repr(e)[:200]})
            continue
        inside = None
        for prop, r in (('C08', r8), ('C07', rr['C07']), ('C10', rr['C10']), ('C17', r17)):
            relevant = [k for k in kr if k in REGION_PROPS.get(prop, ())]
            if r[0] == 'fail' and relevant:
                out['counts'][prop + ':known-region-fail'] += 1
                if relevant == ['R8'] and prop in ('C07', 'C08'):
                    # the program lies in the region of R8 only: it is still compared, under an oracle R8 cannot disturb
                    if inside is None:
                        try:
                            inside = check_inside_r8(src)
                        except BaseException as e:
                            if isinstance(e, (KeyboardInterrupt, SystemExit)):
                                raise
                            inside = {}
                    w = inside.get(prop)
                    out['counts'][prop + ':r8-region-compared'] += 1
                    if w and w[0] == 'fail':
                        out['fails'].append({'prop': prop, 'source': src, 'kind': w[1]['kind'], 'detail': w[1], 'classes': classify(src)})
                continue
            if relevant:
                out['counts'][prop + ':known-region-pass'] += 1
            out['counts'][prop + ':' + r[0]] += 1
            if r[0] == 'fail':
                out['fails'].append({'prop': prop, 'source': src, 'kind': r[1]['kind'], 'detail': r[1], 'classes': classify(src)})
        if rr['C07'][0] == 'ok' and len(out['samples']) < 1 and len(ref) > 3:
            out['samples'].append({'source': src, 'decision_paths': len(ref)})
    out['counts'] = dict(out['counts'])
    return out


def run(pool, tier, seed):
    n = len(progs.programs(tier, seed))
    step = (n + 63) // 64
    tasks = [(tier, seed, s, min(n, s + step)) for s in range(0, n, step)]
    res = pool.map(work, tasks, chunksize=1) if pool is not None else [work(t) for t in tasks]
    d = {'programs': sum(r['programs'] for r in res), 'nontrivial': sum(r['nontrivial'] for r in res), 'paths': sum(r['paths'] for r in res),
         'fails': [], 'counts': Counter(), 'samples': []}
    for r in res:
        d['fails'] += r['fails']
        d['counts'].update(r['counts'])
        if r['samples'] and len(d['samples']) < 3:
            d['samples'] += r['samples']
        d.setdefault('checker_exceptions', []).extend(r.get('checker_exceptions', []))
    d['counts'] = dict(d['counts'])
    return d
