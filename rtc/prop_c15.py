"""C15 bounded stand-in: dictionary and YAML round trips of every enumerated graph at every stage prefix
(and of bytecode graphs), compared field by field; chains write-read-write-read."""
from __future__ import annotations
import os
import random
import sys

REPO = os.environ.get('VERIF_REPO', '/repo')
if REPO not in sys.path:
    sys.path.insert(0, REPO)
import logging  # noqa: E402
logging.disable(logging.CRITICAL)


class Diff(Exception):
    pass


def describe_level(scfg, path='<top>'):
    """name -> comparable record for every block of the hierarchy (ordered successors, back edges, payload, tables, nesting)."""
    out = {}
    for k, b in scfg.graph.items():
        rec = {'class': type(b).__name__, 'name': b.name, 'targets': list(b._jump_targets), 'backedges': list(b.backedges), 'level': path}
        for f in ('begin', 'end', 'variable', 'branch_value_table', 'variable_assignment', 'kind', 'header', 'exiting'):
            if hasattr(b, f):
                rec[f] = getattr(b, f)
        if type(b).__name__ == 'RegionBlock':
            rec['contains'] = sorted(b.subregion.graph)
            rec['parent'] = getattr(b.parent_region, 'name', b.parent_region) if b.parent_region is not None else None
            sub = describe_level(b.subregion, k)
            for k2 in sub:
                if k2 in out:
                    raise Diff(('duplicate-name', k2))
            out.update(sub)
        if k in out:
            raise Diff(('duplicate-name', k))
        out[k] = rec
    return out


def compare(a, b, what):
    da, db = describe_level(a), describe_level(b)
    if set(da) != set(db):
        raise Diff((what + ':blocks', sorted(set(da) ^ set(db))[:4]))
    for k in da:
        for f in da[k]:
            if f == 'parent':
                # the top level's regions name the meta region, whose name depends on the generator state
                if da[k]['level'] == '<top>':
                    continue
            if da[k].get(f) != db[k].get(f):
                raise Diff((what + ':' + f, k, da[k].get(f), db[k].get(f)))


def roundtrip(scfg):
    """returns None or (kind, detail)"""
    from numba_scfg.core.datastructures.scfg import SCFG
    try:
        d1 = scfg.to_dict()
    except Exception as e:
        return ('to_dict-raises', repr(e)[:120])
    try:
        s2, _ = SCFG.from_dict(d1)
    except Exception as e:
        return ('from_dict-raises', repr(e)[:120])
    try:
        compare(scfg, s2, 'dict')
    except Diff as e:
        return (e.args[0][0], repr(e.args[0][1:])[:200])
    try:
        d2 = s2.to_dict()
    except Exception as e:
        return ('rewrite-raises', repr(e)[:120])
    if d1 != d2:
        return ('rewrite-differs', str([k for k in d1 if d1[k] != d2.get(k)])[:100])
    try:
        y1 = scfg.to_yaml()
    except Exception as e:
        return ('to_yaml-raises', repr(e)[:120])
    try:
        s3, _ = SCFG.from_yaml(y1)
    except Exception as e:
        return ('from_yaml-raises', repr(e)[:160])
    try:
        compare(scfg, s3, 'yaml')
    except Diff as e:
        return (e.args[0][0], repr(e.args[0][1:])[:200])
    try:
        y2 = s3.to_yaml()
        s4, _ = SCFG.from_yaml(y2)
        compare(scfg, s4, 'yaml-chain')
    except Diff as e:
        return (e.args[0][0], repr(e.args[0][1:])[:200])
    except Exception as e:
        return ('yaml-chain-raises', repr(e)[:160])
    if y1 != y2:
        return ('yaml-rewrite-differs', '')
    return None


def check_graph(g0, payload='plain'):
    from rtc import cfgpass
    fails = []
    scfg, blocks = cfgpass.make_scfg(g0, payload)
    r = roundtrip(scfg)
    if r:
        fails.append({'stage': 'input', 'kind': r[0], 'detail': r[1]})
    for stage in cfgpass.STAGES:
        try:
            cfgpass.run_stage(scfg, stage)
        except Exception:
            break
        r = roundtrip(scfg)
        if r:
            fails.append({'stage': stage, 'kind': r[0], 'detail': r[1]})
    return fails


def bytecode_cases():
    from numba_scfg.core.datastructures.byte_flow import ByteFlow
    from rtc.prop_c12 import bytecode_functions
    out = []
    for fn in bytecode_functions():
        fails = []
        bf = ByteFlow.from_bytecode(fn)
        r = roundtrip(bf.scfg)
        if r:
            fails.append({'stage': 'input', 'kind': r[0], 'detail': r[1]})
        bf.scfg.restructure()
        r = roundtrip(bf.scfg)
        if r:
            fails.append({'stage': 'restructured', 'kind': r[0], 'detail': r[1]})
        out.append((fn.__name__, fails))
    return out


def work(args):
    from rtc import cfgpass
    mode, n, start, stop, seed = args
    out = {'graphs': 0, 'nontrivial': 0, 'roundtrips': 0, 'fails': [], 'samples': []}
    if mode == 'exh':
        it = (cfgpass.graph_from_index(n, i) for i in range(start, stop))
        it = (s for s in it if cfgpass.is_closed(s))
    else:
        rng = random.Random(seed)
        it = (cfgpass.random_closed(n, rng) for _ in range(stop - start))
    for succ in it:
        g0 = cfgpass.to_named(succ)
        out['graphs'] += 1
        out['nontrivial'] += 1 if cfgpass.nontrivial(g0) else 0
        payload = 'bytecode' if (mode != 'exh' and out['graphs'] % 3 == 0) else 'plain'
        fs = check_graph(g0, payload)
        out['roundtrips'] += 4
        for f in fs:
            f['graph'] = g0
            f['payload'] = payload
            out['fails'].append(f)
        if not fs and len(out['samples']) < 1 and cfgpass.nontrivial(g0):
            out['samples'].append({'graph': g0, 'payload': payload, 'outcome': 'dict and yaml round trips equal at 4 stage prefixes'})
    return out


def run(pool, tier, seed):
    from rtc import cfgpass
    tasks = []
    nmax = 4 if tier == 'quick' else 5
    for n in range(1, nmax + 1):
        raw = cfgpass.raw_count(n)
        step = max(1, raw // (32 if n < 5 else 256))
        for s in range(0, raw, step):
            tasks.append(('exh', n, s, min(raw, s + step), seed))
    for i, n in enumerate((5, 6, 7, 8, 10, 12) if tier == 'quick' else (5, 6, 7, 8, 9, 10, 11, 12, 14, 16, 18) * 2):
        tasks.append(('rnd', n, 0, 20 if tier == 'quick' else 150, seed * 31 + i))
    res = pool.map(work, tasks, chunksize=1) if pool is not None else [work(t) for t in tasks]
    d = {'graphs': sum(r['graphs'] for r in res), 'nontrivial': sum(r['nontrivial'] for r in res), 'roundtrips': sum(r['roundtrips'] for r in res),
         'fails': [], 'samples': [], 'exhaustive_nmax': nmax}
    for r in res:
        d['fails'] += r['fails']
        if r['samples'] and len(d['samples']) < 3:
            d['samples'] += r['samples']
    for name, fs in bytecode_cases():
        d['graphs'] += 1
        d['nontrivial'] += 1
        for f in fs:
            f['graph'] = 'bytecode:' + name
            d['fails'].append(f)
    return d
