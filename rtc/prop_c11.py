"""C11 bounded stand-in: every unsupported statement kind at every structural position of an
otherwise supported function, and non-function input, must be refused with NotImplementedError."""
from __future__ import annotations
import ast
import os
import sys
import textwrap

REPO = os.environ.get('VERIF_REPO', '/repo')
if REPO not in sys.path:
    sys.path.insert(0, REPO)

UNSUPPORTED = {
    'With': 'with open(x) as fh:\n    y = 1',
    'Try': 'try:\n    y = 1\nexcept Exception:\n    y = 2',
    'TryFinally': 'try:\n    y = 1\nfinally:\n    y = 2',
    'TryStar': 'try:\n    y = 1\nexcept* ValueError:\n    y = 2',
    'Raise': 'raise ValueError(x)',
    'Assert': 'assert x',
    'Delete': 'del y',
    'Global': 'global g',
    'Nonlocal': None,   # needs an enclosing function scope: covered by E3
    'Import': 'import os',
    'ImportFrom': 'from os import path',
    'FunctionDef': 'def inner(z):\n    return z + 1',
    'AsyncFunctionDef': 'async def inner(z):\n    return z',
    'ClassDef': 'class Inner:\n    a = 1',
    'Match': 'match x:\n    case 1:\n        y = 1\n    case _:\n        y = 2',
    'AnnAssign': 'y: int = 1',
    'TypeAlias': 'type T = int',
    'Lambda-def': None,
}
POSITIONS = {
    'top': 'def f(x):\n    y = 0\n{S}\n    return y\n',
    'if-body': 'def f(x):\n    y = 0\n    if x:\n{SS}\n    return y\n',
    'else-body': 'def f(x):\n    y = 0\n    if x:\n        y = 1\n    else:\n{SS}\n    return y\n',
    'while-body': 'def f(x):\n    y = 0\n    while x:\n        x -= 1\n{SS}\n    return y\n',
    'for-body': 'def f(x):\n    y = 0\n    for i in range(x):\n{SS}\n    return y\n',
    'loop-else': 'def f(x):\n    y = 0\n    for i in range(x):\n        y += i\n    else:\n{SS}\n    return y\n',
    'after-loop': 'def f(x):\n    y = 0\n    while x:\n        x -= 1\n{S}\n    return y\n',
    'nested-2': 'def f(x):\n    y = 0\n    for i in range(x):\n        if i:\n{SSS}\n    return y\n',
    'last': 'def f(x):\n    y = 0\n{S}\n',
    'after-return': 'def f(x):\n    y = 0\n    if x:\n        return y\n{SS}\n    return y\n',
    'after-break': 'def f(x):\n    y = 0\n    while x:\n        x -= 1\n        break\n{SS}\n    return y\n',
    'after-continue': 'def f(x):\n    y = 0\n    for i in range(x):\n        continue\n{SS}\n    return y\n',
    'after-top-return': 'def f(x):\n    y = 0\n    return y\n{S}\n',
}
NON_FUNCTIONS = {
    'assignment': 'x = 1\n',
    'class': 'class A:\n    def f(self):\n        return 1\n',
    'import': 'import os\n',
    'expression': 'print(1)\n',
    'async-def': 'async def f(x):\n    return x\n',
    'two-functions': 'def f(x):\n    return x\n\ndef g(y):\n    return y\n',
    'def-then-statement': 'def f(x):\n    return x\n\nz = f(1)\n',
    'statement-then-def': 'z = 1\n\ndef f(x):\n    return x\n',
}


def cases():
    for kind, snippet in UNSUPPORTED.items():
        if snippet is None:
            continue
        try:
            ast.parse(snippet)
        except SyntaxError:
            continue   # construct not available in the running interpreter
        for pos, tmpl in POSITIONS.items():
            src = tmpl.replace('{SSS}', textwrap.indent(snippet, ' ' * 12)).replace('{SS}', textwrap.indent(snippet, ' ' * 8)).replace('{S}', textwrap.indent(snippet, ' ' * 4))
            try:
                ast.parse(src)
            except SyntaxError:
                continue
            yield ('%s@%s' % (kind, pos), src, True)
    for k, src in NON_FUNCTIONS.items():
        yield ('non-function:' + k, src, True)
    # inputs given as AST lists / objects
    yield ('non-function:ast-list-of-assign', ast.parse('x = 1').body, True)
    yield ('non-function:empty-list', [], True)
    yield ('non-function:int', 42, True)


def check_case(name, src):
    from numba_scfg.core.datastructures.ast_transforms import AST2SCFG
    try:
        scfg = AST2SCFG(src)
    except NotImplementedError:
        return None
    except Exception as e:
        return {'case': name, 'kind': 'wrong-exception', 'detail': repr(e)[:160]}
    blocks = {k: [ast.unparse(t) for t in b.tree] for k, b in scfg.graph.items()}
    return {'case': name, 'kind': 'accepted', 'detail': str(blocks)[:300]}


def run(pool, tier, seed):
    cs = list(cases())
    fails, samples = [], []
    for name, src, _ in cs:
        r = check_case(name, src)
        if r is not None:
            r['source'] = src if isinstance(src, str) else repr(src)
            fails.append(r)
        elif len(samples) < 3 and isinstance(src, str):
            samples.append({'case': name, 'source': src, 'outcome': 'NotImplementedError'})
    return {'cases': len(cs), 'fails': fails, 'samples': samples}
