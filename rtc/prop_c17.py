"""C17 bounded stand-in: the DOT source produced by SCFGRenderer / ByteFlowRenderer parsed with a small
statement grammar and compared with the hierarchy (nodes, nested clusters, solid and dashed edges, labels)."""
from __future__ import annotations
import os
import random
import re
import sys
from collections import Counter

REPO = os.environ.get('VERIF_REPO', '/repo')
if REPO not in sys.path:
    sys.path.insert(0, REPO)
import logging  # noqa: E402
logging.disable(logging.CRITICAL)


class Bad(Exception):
    pass


def statements(src):
    out, cur, inq, esc = [], [], False, False
    for ch in src:
        if inq:
            cur.append(ch)
            if esc:
                esc = False
            elif ch == '\\':
                esc = True
            elif ch == '"':
                inq = False
        else:
            if ch == '"':
                inq = True
                cur.append(ch)
            elif ch == '\n':
                out.append(''.join(cur).strip())
                cur = []
            else:
                cur.append(ch)
    if cur:
        out.append(''.join(cur).strip())
    return [s for s in out if s]


ID = r'(?:"(?:[^"\\]|\\.)*"|[A-Za-z0-9_.]+)'
EDGE = re.compile(r'^(%s) -> (%s)(?: \[(.*)\])?$' % (ID, ID), re.S)
NODE = re.compile(r'^(%s) \[(.*)\]$' % ID, re.S)
SUB = re.compile(r'^subgraph (%s) \{$' % ID)


def unq(s):
    return s[1:-1].replace('\\"', '"') if s.startswith('"') else s


def parse_dot(src):
    st = statements(src)
    if not st or not st[0].startswith('digraph') or st[-1] != '}':
        raise Bad(('dot-frame', st[:1]))
    nodes, edges, clusters = {}, [], {}
    stack = []
    for s in st[1:-1]:
        m = SUB.match(s)
        if m:
            name = unq(m.group(1))
            if name in clusters:
                raise Bad(('duplicate-cluster', name))
            clusters[name] = stack[-1] if stack else None
            stack.append(name)
            continue
        if s == '}':
            if not stack:
                raise Bad(('unbalanced',))
            stack.pop()
            continue
        m = EDGE.match(s)
        if m:
            attrs = m.group(3) or ''
            edges.append((unq(m.group(1)), unq(m.group(2)), 'dashed' if 'style=dashed' in attrs else 'solid'))
            continue
        m = NODE.match(s)
        if m:
            name = unq(m.group(1))
            if name in nodes:
                raise Bad(('duplicate-node', name))
            lm = re.search(r'label=("(?:[^"\\]|\\.)*"|\S+)', m.group(2), re.S)
            nodes[name] = (stack[-1] if stack else None, unq(lm.group(1)) if lm else '')
            continue
        if re.match(r'^[a-z]+=', s):
            continue   # attribute statement of the enclosing (sub)graph
        raise Bad(('unparsed-statement', s[:80]))
    if stack:
        raise Bad(('unbalanced',))
    return nodes, edges, clusters


def expected(scfg):
    from spec.hier import Index
    from numba_scfg.core.datastructures.basic_block import RegionBlock
    ix = Index(scfg)
    nodes, clusters, edges = {}, {}, Counter()
    for name, (b, lvl, regions) in ix.tab.items():
        parent = ('cluster_' + regions[-1].name) if regions else None
        if isinstance(b, RegionBlock):
            clusters['cluster_' + name] = parent
        else:
            nodes[name] = parent
    for name, (b, lvl, regions) in ix.tab.items():
        if isinstance(b, RegionBlock):
            continue
        for t in b._jump_targets:
            dst = ix.leaf(ix.lookup(name, t)).name
            edges[(name, dst, 'dashed' if t in b.backedges else 'solid')] += 1
    return ix, nodes, clusters, edges


def check_render(scfg, source, flavour, bcmap=None):
    from numba_scfg.core.datastructures.basic_block import SyntheticBranch, SyntheticAssignment, PythonBytecodeBlock, PythonASTBlock
    nodes, edges, clusters = parse_dot(source)
    ix, xn, xc, xe = expected(scfg)
    if set(nodes) != set(xn):
        raise Bad(('nodes', sorted(set(xn) - set(nodes))[:3], sorted(set(nodes) - set(xn))[:3]))
    if clusters != xc:
        raise Bad(('clusters', sorted(set(xc.items()) ^ set(clusters.items()))[:3]))
    for n, (par, label) in nodes.items():
        if par != xn[n]:
            raise Bad(('node-in-wrong-cluster', n, par, xn[n]))
    got = Counter(edges)
    if got != xe:
        raise Bad(('edges', sorted((xe - got).items())[:3], sorted((got - xe).items())[:3]))
    for n, (par, label) in nodes.items():
        b = ix.tab[n][0]
        if n not in label:
            raise Bad(('label-without-name', n))
        if isinstance(b, SyntheticBranch):
            if b.variable not in label:
                raise Bad(('label-without-variable', n))
            for k, v in b.branch_value_table.items():
                if str(k) not in label or str(v) not in label:
                    raise Bad(('label-without-table-entry', n, k, v))
        if isinstance(b, SyntheticAssignment):
            for k, v in b.variable_assignment.items():
                if ('%s = %s' % (k, v)) not in label:
                    raise Bad(('label-without-assignment', n, k, v))
        if isinstance(b, PythonBytecodeBlock) and flavour == 'byteflow' and bcmap is not None:
            for inst in b.get_instructions(bcmap):
                if inst.opname not in label:
                    raise Bad(('label-without-instruction', n, inst.opname))
        if isinstance(b, PythonASTBlock):
            import ast
            for t in b.tree:
                if ast.unparse(t).split('\n')[0][:20] not in label:
                    raise Bad(('label-without-code', n))
    return len(nodes) + len(clusters) + sum(got.values())


def check_graph(g0, payload='plain'):
    from rtc import cfgpass
    from numba_scfg.rendering.rendering import SCFGRenderer
    fails = []
    scfg, blocks = cfgpass.make_scfg(g0, payload)
    for stage in ('input',) + cfgpass.STAGES:
        if stage != 'input':
            try:
                cfgpass.run_stage(scfg, stage)
            except Exception:
                break
        try:
            src = SCFGRenderer(scfg).g.source
        except Exception as e:
            fails.append({'stage': stage, 'kind': 'render-raises', 'detail': repr(e)[:160]})
            continue
        try:
            check_render(scfg, src, 'scfg')
        except Bad as e:
            fails.append({'stage': stage, 'kind': e.args[0][0], 'detail': repr(e.args[0][1:])[:200]})
    return fails


def byteflow_cases():
    from numba_scfg.core.datastructures.byte_flow import ByteFlow
    from numba_scfg.core.datastructures.scfg import SCFG
    from numba_scfg.rendering.rendering import ByteFlowRenderer, SCFGRenderer
    from rtc.prop_c12 import bytecode_functions
    out = []
    for fn in bytecode_functions():
        fails = []
        bf = ByteFlow.from_bytecode(fn)
        for stage in ('input', 'join', 'loop', 'branch'):
            if stage == 'join':
                bf.scfg.join_returns()
            elif stage == 'loop':
                bf.scfg.restructure_loop()
            elif stage == 'branch':
                bf.scfg.restructure_branch()
            for flavour in ('byteflow', 'scfg'):
                try:
                    src = ByteFlowRenderer().render_byteflow(bf).source if flavour == 'byteflow' else SCFGRenderer(bf.scfg).g.source
                    check_render(bf.scfg, src, flavour, SCFG.bcmap_from_bytecode(bf.bc))
                except Bad as e:
                    fails.append({'stage': stage + '/' + flavour, 'kind': e.args[0][0], 'detail': repr(e.args[0][1:])[:200]})
                except Exception as e:
                    fails.append({'stage': stage + '/' + flavour, 'kind': 'render-raises', 'detail': repr(e)[:160]})
        out.append((fn.__name__, fails))
    return out


def work(args):
    from rtc import cfgpass
    mode, n, start, stop, seed = args
    out = {'graphs': 0, 'nontrivial': 0, 'renders': 0, 'fails': [], 'samples': []}
    if mode == 'exh':
        it = (cfgpass.graph_from_index(n, i) for i in range(start, stop))
        it = (s for s in it if cfgpass.is_closed(s))
    else:
        rng = random.Random(seed)
        it = (cfgpass.random_closed(n, rng) for _ in range(stop - start))
    for succ in it:
        g0 = cfgpass.to_named(succ)
        out['graphs'] += 1
        out['nontrivial'] += 1 if cfgpass.nontrivial(g0) else 0
        payload = ('plain', 'ast', 'bytecode')[out['graphs'] % 3] if mode != 'exh' else 'plain'
        fs = check_graph(g0, payload)
        out['renders'] += 4
        for f in fs:
            f['graph'] = g0
            f['payload'] = payload
            out['fails'].append(f)
        if not fs and len(out['samples']) < 1 and cfgpass.nontrivial(g0):
            out['samples'].append({'graph': g0, 'payload': payload, 'outcome': 'DOT census equal at 4 stage prefixes'})
    return out


def run(pool, tier, seed):
    from rtc import cfgpass
    tasks = []
    nmax = 4 if tier == 'quick' else 5
    for n in range(1, nmax + 1):
        raw = cfgpass.raw_count(n)
        step = max(1, raw // (32 if n < 5 else 256))
        for s in range(0, raw, step):
            tasks.append(('exh', n, s, min(raw, s + step), seed))
    for i, n in enumerate((5, 6, 7, 8, 10, 12) if tier == 'quick' else (5, 6, 7, 8, 9, 10, 11, 12, 14, 16, 18) * 2):
        tasks.append(('rnd', n, 0, 20 if tier == 'quick' else 150, seed * 37 + i))
    res = pool.map(work, tasks, chunksize=1) if pool is not None else [work(t) for t in tasks]
    d = {'graphs': sum(r['graphs'] for r in res), 'nontrivial': sum(r['nontrivial'] for r in res), 'renders': sum(r['renders'] for r in res),
         'fails': [], 'samples': [], 'exhaustive_nmax': nmax}
    for r in res:
        d['fails'] += r['fails']
        if r['samples'] and len(d['samples']) < 3:
            d['samples'] += r['samples']
    for name, fs in byteflow_cases():
        d['graphs'] += 1
        d['nontrivial'] += 1
        d['renders'] += 8
        for f in fs:
            f['graph'] = 'bytecode:' + name
            d['fails'].append(f)
    return d


def arm_coverage():
    """E3: render_block has an arm for every block class (one instance of each class rendered by both renderers)."""
    import ast
    import dataclasses
    from numba_scfg.core.datastructures import basic_block as bb
    from numba_scfg.core.datastructures.scfg import SCFG
    from numba_scfg.rendering.rendering import SCFGRenderer, ByteFlowRenderer
    from fin.registry import sample_value
    with open(os.path.join(REPO, 'numba_scfg/core/datastructures/basic_block.py')) as fh:
        tree = ast.parse(fh.read())
    classes = [st.name for st in tree.body if isinstance(st, ast.ClassDef)]
    fails, n = [], 0
    for cn in classes:
        if cn == 'RegionBlock':
            continue
        cls = getattr(bb, cn)
        kw = {}
        for f in dataclasses.fields(cls):
            v = sample_value(f)
            if v is not None:
                kw[f.name] = v
        if cn == 'PythonASTBlock':
            kw['tree'] = ast.parse('x = 1').body
        inst = cls(**kw)
        g = SCFG({'blk': inst, 't': bb.BasicBlock('t')})
        for flavour in ('scfg', 'byteflow'):
            if flavour == 'byteflow' and cn == 'PythonASTBlock':
                continue     # ByteFlowRenderer draws bytecode graphs only
            n += 1
            try:
                if flavour == 'scfg':
                    src = SCFGRenderer(g).g.source
                else:
                    r = ByteFlowRenderer()
                    r.bcmap = {}
                    for name, block in g.graph.items():
                        r.render_block(r.g, name, block)
                    r.render_edges(g)
                    src = r.g.source
                check_render(g, src, flavour)
            except Bad as e:
                fails.append({'clause': 'arm[%s/%s]' % (cn, flavour), 'detail': repr(e.args[0])[:200]})
            except Exception as e:
                fails.append({'clause': 'arm[%s/%s]' % (cn, flavour), 'detail': 'raised %r' % (e,)})
    return {'obligations': n, 'discharged': n - len(fails), 'failures': fails, 'domain': 'every block class of basic_block.py x {SCFGRenderer, ByteFlowRenderer}'}
