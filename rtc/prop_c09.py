"""C09 bounded stand-in: ByteFlow.from_bytecode on a corpus of real code objects against a
ground truth computed independently from dis/opcode (leaders, partition of instructions, successors)."""
from __future__ import annotations
import dis
import importlib
import os
import random
import sys
import types

REPO = os.environ.get('VERIF_REPO', '/repo')
if REPO not in sys.path:
    sys.path.insert(0, REPO)
import logging  # noqa: E402
logging.disable(logging.CRITICAL)
from fin.opcodes import ground_truth, OUT_OF_DOMAIN  # noqa: E402

MODULES = ['json', 'json.decoder', 'json.encoder', 'ast', 'argparse', 'dis', 'inspect', 'textwrap', 're', 'collections', 'functools',
           'heapq', 'bisect', 'random', 'statistics', 'string', 'shlex', 'tokenize', 'difflib', 'pprint', 'copy', 'enum', 'dataclasses',
           'typing', 'pathlib', 'posixpath', 'os', 'stat', 'glob', 'fnmatch', 'shutil', 'tempfile', 'csv', 'configparser', 'logging',
           'gettext', 'locale', 'calendar', 'datetime', '_pydecimal', 'fractions', 'numbers', 'colorsys', 'base64', 'hashlib', 'hmac',
           'codecs', 'html', 'html.parser', 'xml.etree.ElementTree', 'urllib.parse', 'email.message', 'email.utils', 'email.header',
           'mimetypes', 'zipfile', 'tarfile', 'gzip', 'pickle', 'pickletools', 'uuid', 'ipaddress', 'getopt', 'optparse', 'cmd',
           'timeit', 'trace', 'traceback', 'warnings', 'contextlib', 'abc', 'weakref', 'types', 'operator', 'keyword', 'symtable',
           'pkgutil', 'modulefinder', 'sched', 'queue', 'threading', 'subprocess', 'selectors', 'socket', 'plistlib', 'quopri',
           'sre_parse' if sys.version_info < (3, 11) else 're._parser', 're._compiler', 'opcode', 'codeop', 'code', 'bdb', 'pdb',
           'unittest.case', 'unittest.mock', 'doctest', 'turtle' if False else 'cProfile', 'pstats', 'profile', 'tabnanny', 'pyclbr',
           'filecmp', 'fileinput', 'linecache', 'netrc', 'nturl2path', 'ntpath', 'genericpath', 'sysconfig', 'platform', 'zipapp',
           'http.client', 'http.cookies', 'http.server', 'ftplib', 'smtplib', 'imaplib', 'poplib', 'wave', 'aifc' if False else 'chunk' if sys.version_info < (3, 13) else 'wave',
           'sunau' if False else 'graphlib', 'zoneinfo._common', 'concurrent.futures._base', 'asyncio.base_events', 'asyncio.streams',
           'importlib._bootstrap_external', 'importlib.util', 'importlib.metadata', 'xml.dom.minidom', 'xml.sax.saxutils', 'decimal', 'reprlib',
           'struct', 'array' if False else 'ctypes.util', 'multiprocessing.util', 'multiprocessing.pool', 'lib2to3.pytree' if False else 'tomllib._parser']


def code_objects(seed=None, limit=None):
    seen, out = set(), []

    def add(co, origin):
        if id(co) in seen:
            return
        seen.add(id(co))
        out.append((origin, co))
        for c in co.co_consts:
            if isinstance(c, types.CodeType):
                add(c, origin + '.<' + c.co_name + '>')
    for mn in MODULES:
        try:
            m = importlib.import_module(mn)
        except Exception:
            continue
        for name, obj in sorted(vars(m).items()):
            if isinstance(obj, types.FunctionType) and obj.__module__ == m.__name__:
                add(obj.__code__, '%s.%s' % (mn, name))
            elif isinstance(obj, type) and obj.__module__ == m.__name__:
                for n2, o2 in sorted(vars(obj).items()):
                    f = getattr(o2, '__func__', o2)
                    if isinstance(f, types.FunctionType):
                        add(f.__code__, '%s.%s.%s' % (mn, name, n2))
    for fn in handwritten():
        add(fn.__code__, 'handwritten.' + fn.__name__)
    if limit is not None and len(out) > limit:
        rng = random.Random(seed)
        hand = [x for x in out if x[0].startswith('handwritten.')]
        rest = [x for x in out if not x[0].startswith('handwritten.')]
        out = hand + rng.sample(rest, limit - len(hand))
    return out


def handwritten():
    """small functions that make the interpreter emit every in-domain jump / return opcode"""
    def f_none(x):
        if x is None:
            return 1
        return 2

    def f_not_none(x):
        if x is not None:
            return x
        return 0

    def f_for(n):
        c = 0
        for i in range(n):
            c += i
        return c

    def f_while(n):
        while n > 0:
            n -= 1
        return n

    def f_while_true_break(n):
        while True:
            n += 1
            if n > 10:
                break
        return n

    def f_andor(a, b, c):
        return (a and b) or c

    def f_const():
        return 7

    def f_none_ret():
        pass

    def f_nested(a, b):
        for i in range(a):
            for j in range(b):
                if i == j:
                    continue
                if i > j:
                    break
            else:
                a += 1
        return a

    def f_ternary(a):
        return 1 if a else 2

    def f_chain(a, b, c):
        return a < b < c

    def f_loop_none(xs):
        for x in xs:
            if x is None:
                continue
            if x is not None and x > 3:
                return x
        return None
    return [f_none, f_not_none, f_for, f_while, f_while_true_break, f_andor, f_const, f_none_ret, f_nested, f_ternary, f_chain, f_loop_none]


def in_domain(co):
    if co.co_flags & (0x20 | 0x80 | 0x100 | 0x200):   # generator, coroutine, iterable coroutine, async generator
        return False
    if getattr(co, 'co_exceptiontable', b''):
        return False
    for inst in dis.get_instructions(co):
        if inst.opname in OUT_OF_DOMAIN:
            return False
    return True


def ground(co):
    """(blocks as list of tuples of instruction offsets, successors per block as tuple of leader offsets)."""
    insts = list(dis.get_instructions(co))
    offs = [i.offset for i in insts]
    nxt = {a: b for a, b in zip(offs, offs[1:])}
    leaders = {offs[0]}
    for i in insts:
        cls = ground_truth(i.opname, dis.opmap[i.opname])
        if cls in ('conditional', 'unconditional'):
            leaders.add(i.argval)
            if cls == 'conditional' and i.offset in nxt:
                leaders.add(nxt[i.offset])
        if i.is_jump_target:
            leaders.add(i.offset)
    leaders = sorted(leaders)
    blocks, succ = [], []
    for a, b in zip(leaders, leaders[1:] + [None]):
        members = tuple(o for o in offs if o >= a and (b is None or o < b))
        last = [i for i in insts if i.offset == members[-1]][0]
        cls = ground_truth(last.opname, dis.opmap[last.opname])
        if cls == 'conditional':
            s = (nxt[last.offset], last.argval)
        elif cls == 'unconditional':
            s = (last.argval,)
        elif cls == 'returning':
            s = ()
        else:
            s = (b,) if b is not None else ('<falls off the end>',)
        blocks.append(members)
        succ.append(s)
    return blocks, succ


def check_code(co):
    from numba_scfg.core.datastructures.byte_flow import ByteFlow
    from numba_scfg.core.datastructures.scfg import SCFG
    try:
        bf = ByteFlow.from_bytecode(co)
    except Exception as e:
        return ('raises', {'exception': repr(e)[:160]})
    g = bf.scfg.graph
    insts = list(dis.get_instructions(co))
    offs = [i.offset for i in insts]
    end_off = offs[-1] + 2
    bl = sorted(g.values(), key=lambda b: b.begin)
    # contiguous, non-overlapping, gap-free, covering [0, end)
    if bl[0].begin != 0:
        return ('cover', {'first_begin': bl[0].begin})
    for a, b in zip(bl, bl[1:]):
        if a.end != b.begin:
            return ('contiguous', {'a': (a.begin, a.end), 'b': (b.begin, b.end)})
    if bl[-1].end < end_off:
        return ('cover', {'last_end': bl[-1].end, 'want': end_off})
    for b in bl:
        if b.begin >= b.end:
            return ('empty-block', {'block': (b.begin, b.end)})
    want_blocks, want_succ = ground(co)
    got_blocks = [tuple(o for o in offs if b.begin <= o < b.end) for b in bl]
    if any(len(m) == 0 for m in got_blocks):
        return ('block-without-instruction', {'blocks': [(b.begin, b.end) for b in bl]})
    if got_blocks != want_blocks:
        return ('partition', {'got': got_blocks[:6], 'want': want_blocks[:6]})
    first = {b.name: m[0] for b, m in zip(bl, got_blocks)}
    # the library's block may begin in the inline-cache slot before its first real instruction
    for b, m, ws in zip(bl, got_blocks, want_succ):
        gs = tuple(first.get(t, '?') for t in b._jump_targets)
        if gs != tuple(ws):
            return ('successors', {'block': m[:2], 'got': gs, 'want': ws})
        bc = SCFG.bcmap_from_bytecode(bf.bc)
        if tuple(i.offset for i in b.get_instructions(bc)) != m:
            return ('get_instructions', {'block': (b.begin, b.end)})
    # history: building again - after the first graph has been handed out and transformed - gives the same graph, freshly
    # built (the property speaks of "the graph built from its bytecode", whatever was done with an earlier result)
    if len(g) <= 14:
        dump = {k: (type(v).__name__, v.begin, v.end, v._jump_targets, v.backedges) for k, v in g.items()}
        try:
            bf.scfg.restructure()
        except Exception:
            pass
        try:
            bf2 = ByteFlow.from_bytecode(co)
        except Exception as e:
            return ('rebuild-raises', {'exception': repr(e)[:160]})
        if bf2.scfg is bf.scfg or bf2.scfg.graph is bf.scfg.graph:
            return ('rebuild-shares-graph', {})
        dump2 = {k: (type(v).__name__, getattr(v, 'begin', None), getattr(v, 'end', None), v._jump_targets, v.backedges)
                 for k, v in bf2.scfg.graph.items()}
        if dump2 != dump:
            return ('rebuild-differs', {'first': sorted(dump)[:6], 'second': sorted(dump2)[:6]})
    return None


def work(args):
    seed, limit, lo, hi = args
    cos = code_objects(seed, limit)[lo:hi]
    out = {'tried': 0, 'in_domain': 0, 'nontrivial': 0, 'fails': [], 'samples': [], 'opnames': set()}
    for origin, co in cos:
        out['tried'] += 1
        if not in_domain(co):
            continue
        out['in_domain'] += 1
        jumps = {i.opname for i in dis.get_instructions(co) if ground_truth(i.opname, dis.opmap[i.opname]) != 'other'}
        out['opnames'] |= jumps
        if len(jumps - {'RETURN_VALUE', 'RETURN_CONST'}) > 0:
            out['nontrivial'] += 1
        r = check_code(co)
        if r is not None:
            out['fails'].append({'origin': origin, 'kind': r[0], 'detail': r[1]})
        elif len(out['samples']) < 1 and len(jumps) > 2:
            out['samples'].append({'code_object': origin, 'jump_opcodes': sorted(jumps)})
    out['opnames'] = sorted(out['opnames'])
    return out


def run(pool, tier, seed):
    limit = 600 if tier == 'quick' else None
    total = len(code_objects(seed, limit))
    step = (total + 31) // 32
    res = pool.map(work, [(seed, limit, s, min(total, s + step)) for s in range(0, total, step)], chunksize=1)
    d = {'code_objects': sum(r['tried'] for r in res), 'in_domain': sum(r['in_domain'] for r in res),
         'nontrivial': sum(r['nontrivial'] for r in res), 'fails': [], 'samples': [], 'opnames': set()}
    for r in res:
        d['fails'] += r['fails']
        d['samples'] += r['samples'][:1]
        d['opnames'] |= set(r['opnames'])
    d['opnames'] = sorted(d['opnames'])
    d['samples'] = d['samples'][:3]
    return d
