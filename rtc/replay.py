"""Re-execute a replay file against the real code ($VERIF_REPO). exit 1 if the failure reproduces."""
from __future__ import annotations
import json
import sys


def replay_file(path):
    with open(path) as fh:
        r = json.load(fh)
    kind = r.get('kind')
    if kind == 'function-contract':
        import contracts  # noqa
        from rtc.fuzz import replay
        o = replay(r['qual'], r['args'])
        print('replay %s: %s %s' % (r['qual'], o.kind, json.dumps(o.detail, default=str)[:400]))
        return 1 if o.kind == 'fail' else 0
    if kind == 'cfg-pipeline':
        from rtc import cfgpass
        g0 = {k: tuple(v) for k, v in r['graph'].items()}
        fails = [f for f in cfgpass.check_graph(g0, r.get('payload', 'plain')) if f['prop'] == r['property']]
        print('replay cfg %s: %d failures %s' % (g0, len(fails), json.dumps(fails[:2], default=str)[:400]))
        return 1 if fails else 0
    if kind == 'obligation-only':
        print('replay: obligation %s has no failing input; solver output: %s' % (r.get('obligation'), json.dumps(r.get('solver'))[:400]))
        return 1
    from rtc import properties as P
    if kind in P.REPLAYERS:
        return P.REPLAYERS[kind](r)
    print('unknown replay kind', kind)
    return 3


if __name__ == '__main__':
    sys.exit(replay_file(sys.argv[1]))
