"""C13 bounded stand-in: every graph query against its brute-force definition on all
small digraphs (self loops, duplicate and external targets, declared back edges), all subsets, all pairs."""
from __future__ import annotations
import itertools
import os
import sys

REPO = os.environ.get('VERIF_REPO', '/repo')
if REPO not in sys.path:
    sys.path.insert(0, REPO)
import logging  # noqa: E402
logging.disable(logging.CRITICAL)


def target_choices(names, maxdeg):
    out = [()]
    for r in range(1, maxdeg + 1):
        out += list(itertools.product(names, repeat=r))
    return out


def space(n, maxdeg):
    names = [str(i) for i in range(n)] + ['X']
    return names, target_choices(names, maxdeg)


def graph_at(n, maxdeg, idx):
    names, ch = space(n, maxdeg)
    g = {}
    for i in range(n):
        g[str(i)] = ch[idx % len(ch)]
        idx //= len(ch)
    return g


def reach_from(adj, a):
    seen = set()
    st = list(adj.get(a, ()))
    while st:
        x = st.pop()
        if x in seen:
            continue
        seen.add(x)
        st.extend(adj.get(x, ()))
    return seen


def check_digraph(g, be):
    """g: name -> raw targets; be: name -> backedges tuple. Returns list of (query, detail)."""
    from numba_scfg.core.datastructures.scfg import SCFG
    from numba_scfg.core.datastructures.basic_block import BasicBlock
    from numba_scfg.core import transformations as T
    bad = []
    s = SCFG({k: BasicBlock(k, v, be.get(k, ())) for k, v in g.items()})
    f = {k: tuple(t for t in v if t not in be.get(k, ())) for k, v in g.items()}      # filtered
    fi = {k: [t for t in v if t in g] for k, v in f.items()}                          # filtered, internal
    names = list(g) + ['X']
    # ---- scc
    try:
        sccs = [set(c) for c in s.compute_scc()]
        R = {a: reach_from(fi, a) for a in g}
        want = {frozenset([a] + [b for b in g if b in R[a] and a in R[b]]) for a in g}
        if set(map(frozenset, sccs)) != want or sum(map(len, sccs)) != len(g):
            bad.append(('compute_scc', {'got': [sorted(c) for c in sccs], 'want': [sorted(c) for c in want]}))
    except Exception as e:
        bad.append(('compute_scc', {'raised': repr(e)}))
    # ---- reachability (path of >= 1 edge; intermediate nodes inside the graph)
    for a in g:
        ra = reach_from(f, a)
        for b in names:
            try:
                got = s.is_reachable_dfs(a, b)
            except Exception as e:
                bad.append(('is_reachable_dfs', {'a': a, 'b': b, 'raised': repr(e)}))
                continue
            if got != (b in ra):
                bad.append(('is_reachable_dfs', {'a': a, 'b': b, 'got': got}))
    # ---- head
    heads = [k for k in g if not any(k in v for v in f.values())]
    try:
        h = s.find_head()
        if [h] != heads:
            bad.append(('find_head', {'got': h, 'want': heads}))
    except AssertionError:
        if len(heads) == 1:
            bad.append(('find_head', {'raised': 'AssertionError', 'want': heads}))
    except Exception as e:
        bad.append(('find_head', {'raised': repr(e)}))
    # ---- subset queries
    keys = list(g)
    for r in range(0, len(keys) + 1):
        for sub in itertools.combinations(keys, r):
            sub = set(sub)
            hd = {t for k, v in g.items() if k not in sub for t in v if t in sub}
            en = {k for k, v in g.items() if k not in sub and any(t in sub for t in v)}
            try:
                Hd, En = s.find_headers_and_entries(set(sub))
                if hd and (Hd, En) != (sorted(hd), sorted(en)):
                    bad.append(('find_headers_and_entries', {'sub': sorted(sub), 'got': [Hd, En], 'want': [sorted(hd), sorted(en)]}))
                if not hd and (len(heads) != 1 or Hd != heads or En != []):
                    bad.append(('find_headers_and_entries', {'sub': sorted(sub), 'got': [Hd, En], 'want': [heads, []]}))
            except AssertionError:
                if hd or len(heads) == 1:
                    bad.append(('find_headers_and_entries', {'sub': sorted(sub), 'raised': 'AssertionError'}))
            except Exception as e:
                bad.append(('find_headers_and_entries', {'sub': sorted(sub), 'raised': repr(e)}))
            xg = {k for k in sub if any(t not in sub for t in f[k]) or not f[k]}
            xs = {t for k in sub for t in f[k] if t not in sub}
            try:
                Xg, Xs = s.find_exiting_and_exits(set(sub))
                if (Xg, Xs) != (sorted(xg), sorted(xs)):
                    bad.append(('find_exiting_and_exits', {'sub': sorted(sub), 'got': [Xg, Xs], 'want': [sorted(xg), sorted(xs)]}))
            except Exception as e:
                bad.append(('find_exiting_and_exits', {'sub': sorted(sub), 'raised': repr(e)}))
    # ---- dominators / post-dominators against the path-based definition
    for fn, edges, label in ((T._doms, fi, '_doms'), (T._post_doms, {k: [a for a in g if k in fi[a]] for k in g}, '_post_doms')):
        ents = [k for k in g if not any(k in edges[a] for a in g)]
        if not ents:
            try:
                fn(s)
                bad.append((label, {'expected': 'RuntimeError (no entry points)'}))
            except RuntimeError:
                pass
            except Exception as e:
                bad.append((label, {'raised': repr(e)}))
            continue
        try:
            d = fn(s)
        except Exception as e:
            bad.append((label, {'raised': repr(e)}))
            continue
        want_all = {}
        for b in g:
            want = {b}
            for a in g:
                if a == b:
                    continue
                seen = set(e for e in ents if e != a)
                st = list(seen)
                while st:
                    x = st.pop()
                    for y in edges[x]:
                        if y != a and y not in seen:
                            seen.add(y)
                            st.append(y)
                if b not in seen:
                    want.add(a)
            want_all[b] = want
            if d.get(b) != want:
                bad.append((label, {'node': b, 'got': sorted(d.get(b, ())), 'want': sorted(want)}))
        # immediate dominators: the unique closest strict dominator
        if label == '_doms' or label == '_post_doms':
            try:
                idom = T._imm_doms({k: set(v) for k, v in d.items()})
                for b in g:
                    strict = want_all[b] - {b}
                    if not strict:
                        if b in idom:
                            bad.append(('_imm_doms', {'node': b, 'got': idom[b], 'want': None, 'of': label}))
                        continue
                    cands = [a for a in strict if all(c in want_all[a] for c in strict)]
                    if len(cands) == 1 and idom.get(b) != cands[0]:
                        bad.append(('_imm_doms', {'node': b, 'got': idom.get(b), 'want': cands[0], 'of': label}))
            except Exception as e:
                # the reachable part of a graph always has a dominator tree; unreachable cycles do not
                reach_all = set(ents)
                stx = list(ents)
                while stx:
                    x = stx.pop()
                    for y in edges[x]:
                        if y not in reach_all:
                            reach_all.add(y)
                            stx.append(y)
                if reach_all == set(g):
                    bad.append(('_imm_doms', {'raised': repr(e), 'of': label}))
    return bad


def check_nested(g0):
    """sub-graphs whose edges leave the graph: on every level of the restructured hierarchy, the subset queries on the whole
    level and on its head against the definition evaluated over the hierarchy (the entries of a subset that nothing in its own
    level jumps into are the blocks of the nearest enclosing level that jump to the enclosing region)"""
    from rtc import cfgpass
    bad = []
    scfg, _ = cfgpass.make_scfg(g0, "plain")
    try:
        scfg.restructure()
    except Exception:
        return bad        # acceptance is C02's business

    def expected_entries(chain):
        # chain: [(graph dict, region name inside it), ...] from the innermost enclosing level outwards
        for pg, rn in chain:
            outs = sorted(o for o, b in pg.items() if o != rn and rn in b._jump_targets)
            if outs:
                return outs
        return []

    def walk(level, chain):
        keys = set(level.graph)
        if chain:
            for sub in (set(keys), {level.find_head()}):
                inside_entries = sorted(o for o in keys - sub if sub & set(level.graph[o]._jump_targets))
                inside_headers = sorted({t for o in keys - sub for t in level.graph[o]._jump_targets if t in sub})
                try:
                    h, e = level.find_headers_and_entries(set(sub))
                except Exception as ex:
                    bad.append(('find_headers_and_entries-nested', {'raised': repr(ex)[:100], 'subset': sorted(sub)}))
                    continue
                want_h = inside_headers or [level.find_head()]
                want_e = inside_entries if inside_headers else expected_entries(chain)
                if h != want_h or e != want_e:
                    bad.append(('find_headers_and_entries-nested', {'level': chain[0][1], 'subset': sorted(sub), 'got': [h, e], 'want': [want_h, want_e]}))
        for k, b in level.graph.items():
            if type(b).__name__ == 'RegionBlock' and b.subregion is not None:
                walk(b.subregion, [(level.graph, k)] + chain)
    walk(scfg, [])
    return bad


def work_nested(args):
    from rtc import cfgpass
    import random
    n, start, stop, seed = args
    out = {'graphs': 0, 'nontrivial': 0, 'fails': []}
    if start is None:
        rng = random.Random(seed)
        gs = [cfgpass.to_named(cfgpass.random_closed(n, rng)) for _ in range(stop)]
    else:
        gs = []
        for idx in range(start, stop):
            succ = cfgpass.graph_from_index(n, idx)
            if cfgpass.is_closed(succ):
                gs.append(cfgpass.to_named(succ))
    for g0 in gs:
        out['graphs'] += 1
        out['nontrivial'] += 1 if cfgpass.nontrivial(g0) else 0
        for q, detail in check_nested(g0):
            out['fails'].append({'query': q, 'graph': {k: list(v) for k, v in g0.items()}, 'backedges': {}, 'detail': detail, 'nested': True})
            break
    return out


def be_variants(g):
    yield {}
    for k, v in g.items():
        if v:
            yield {k: (v[-1],)}
            break


def work(args):
    n, maxdeg, start, stop, stride = args
    out = {'graphs': 0, 'nontrivial': 0, 'queries': 0, 'fails': [], 'samples': []}
    for idx in range(start, stop, stride):
        g = graph_at(n, maxdeg, idx)
        for be in be_variants(g):
            out['graphs'] += 1
            if any(g.values()):
                out['nontrivial'] += 1
            if len(out['samples']) < 1 and any(len(v) > 1 for v in g.values()):
                out['samples'].append({'graph': g, 'backedges': be})
            for q, detail in check_digraph(g, be):
                out['fails'].append({'query': q, 'graph': g, 'backedges': be, 'detail': detail})
                if len(out['fails']) > 50:
                    return out
    return out


def run(pool, tier, seed):
    plan = [(1, 3), (2, 3), (3, 2)] if tier == 'quick' else [(1, 3), (2, 3), (3, 3), (4, 2)]
    tasks = []
    scope = []
    for n, deg in plan:
        names, ch = space(n, deg)
        total = len(ch) ** n
        stride = 1
        if tier == 'quick' and total > 20000:
            stride = total // 20000 + 1
        if tier != 'quick' and total > 700000:
            stride = total // 700000 + 1
        scope.append({'nodes': n, 'max_out_degree': deg, 'graphs': total, 'stride': stride})
        nchunks = 64
        step = (total + nchunks - 1) // nchunks
        for s in range(0, total, step):
            first = s + ((-s) % stride)
            tasks.append((n, deg, first, min(total, s + step), stride))
    res = pool.map(work, tasks, chunksize=1)
    d = {'graphs': sum(r['graphs'] for r in res), 'nontrivial': sum(r['nontrivial'] for r in res), 'fails': [], 'samples': [], 'scope': scope}
    for r in res:
        d['fails'] += r['fails']
        if r['samples'] and len(d['samples']) < 3:
            d['samples'] += r['samples']
    d['exhaustive'] = all(s['stride'] == 1 for s in scope)
    # nested levels of restructured closed CFGs (all with <= 4 blocks, random larger ones)
    from rtc import cfgpass
    nt = []
    for n in range(1, 5):
        raw = cfgpass.raw_count(n)
        step = max(1, raw // 32)
        nt += [(n, s_, min(raw, s_ + step), seed) for s_ in range(0, raw, step)]
    nt += [(n, None, 40 if tier == 'quick' else 400, seed * 31 + n) for n in (5, 6, 7, 8, 9, 10)]
    rn = pool.map(work_nested, nt, chunksize=1)
    d['nested_graphs'] = sum(r['graphs'] for r in rn)
    d['graphs'] += d['nested_graphs']
    d['nontrivial'] += sum(r['nontrivial'] for r in rn)
    for r in rn:
        d['fails'] += r['fails']
    return d
