"""E2 at pipeline level: the shared pass over closed CFGs (DESIGN 2.6).

For every input graph and every stage prefix the property-level contracts of
C01-C06, C15-C17 are evaluated on the real result.  Enumeration is exhaustive
up to the node bound (labelled graphs, at most two ordered distinct successors)
and seeded-random beyond it."""
from __future__ import annotations
import itertools
import os
import random
import resource
import sys
import time
import traceback

REPO = os.environ.get('VERIF_REPO', '/repo')
if REPO not in sys.path:
    sys.path.insert(0, REPO)

import logging  # noqa: E402
logging.disable(logging.CRITICAL)

from numba_scfg.core.datastructures.scfg import SCFG  # noqa: E402
from numba_scfg.core.datastructures import basic_block as bb  # noqa: E402
from spec import hier as H  # noqa: E402

STAGES = ('join', 'loop', 'branch')
PROPS = ('C01', 'C02', 'C03', 'C04', 'C05', 'C06', 'C16')


# ------------------------------------------------------------------ enumeration
def succ_choices(n):
    out = [()]
    out += [(a,) for a in range(n)]
    out += [(a, b) for a in range(n) for b in range(n) if a != b]
    return out


def is_closed(succ):
    n = len(succ)
    haspred = [False] * n
    for a in range(n):
        for b in succ[a]:
            haspred[b] = True
    heads = [i for i in range(n) if not haspred[i]]
    if len(heads) != 1:
        return False
    seen = {heads[0]}
    st = [heads[0]]
    while st:
        x = st.pop()
        for y in succ[x]:
            if y not in seen:
                seen.add(y)
                st.append(y)
    if len(seen) != n:
        return False
    exits = [i for i in range(n) if not succ[i]]
    if not exits:
        return False
    pred = [[] for _ in range(n)]
    for a in range(n):
        for b in succ[a]:
            pred[b].append(a)
    can = set(exits)
    st = list(exits)
    while st:
        x = st.pop()
        for y in pred[x]:
            if y not in can:
                can.add(y)
                st.append(y)
    return len(can) == n


def graph_from_index(n, idx):
    ch = succ_choices(n)
    base = len(ch)
    succ = []
    for _ in range(n):
        succ.append(ch[idx % base])
        idx //= base
    return succ


def raw_count(n):
    return len(succ_choices(n)) ** n


def to_named(succ):
    return {str(i): tuple(str(t) for t in ts) for i, ts in enumerate(succ)}


def random_closed(n, rng):
    while True:
        succ = []
        for i in range(n):
            k = rng.choice([0, 1, 1, 2, 2, 2])
            c = list(range(n))
            rng.shuffle(c)
            succ.append(tuple(c[:k]))
        if is_closed(succ):
            return succ


def random_closed3(n, rng):
    """closed CFG in which blocks may have three ordered distinct successors (multi-way branches)"""
    while True:
        succ = []
        for i in range(n):
            k = rng.choice([0, 1, 1, 2, 2, 3, 3])
            c = list(range(n))
            rng.shuffle(c)
            succ.append(tuple(c[:k]))
        if is_closed(succ) and any(len(s) == 3 for s in succ):
            return succ


def nontrivial(g0):
    """a cycle or a block with two successors."""
    if any(len(v) > 1 for v in g0.values()):
        return True
    color = {}
    for s in g0:
        if s in color:
            continue
        stack = [(s, iter(g0[s]))]
        color[s] = 1
        while stack:
            n, it = stack[-1]
            for v in it:
                if color.get(v) == 1:
                    return True
                if v not in color:
                    color[v] = 1
                    stack.append((v, iter(g0[v])))
                    break
            else:
                color[n] = 2
                stack.pop()
    return False


# ------------------------------------------------------------------ per-graph checks
def make_scfg(g0, payload='plain'):
    blocks = {}
    for k, v in g0.items():
        if payload == 'plain':
            blocks[k] = bb.BasicBlock(name=k, _jump_targets=v)
        elif payload == 'bytecode':
            i = int(k) if k.isdigit() else 0
            blocks[k] = bb.PythonBytecodeBlock(name=k, _jump_targets=v, begin=2 * i, end=2 * i + 2)
        else:
            import ast
            tree = [ast.parse('x%s = 1' % k).body[0]]
            if len(v) == 2:
                tree.append(ast.Name(id='c%s' % k, ctx=ast.Load()))
            elif len(v) == 0:
                tree.append(ast.Return(value=ast.Name(id='x%s' % k, ctx=ast.Load())))
            i = int(k) if k.isdigit() else 0
            # every payload field carries a non-default value (a PythonASTBlock is a bytecode-range block with a tree)
            blocks[k] = bb.PythonASTBlock(name=k, _jump_targets=v, tree=tree, begin=10 + 2 * i, end=12 + 2 * i)
    return SCFG(dict(blocks)), blocks


def frames(e):
    tb = traceback.extract_tb(e.__traceback__)
    out = []
    for f in tb:
        if '/numba_scfg/' in f.filename and '/tests/' not in f.filename:
            out.append('%s:%s' % (os.path.basename(f.filename), f.name))
    return tuple(out[-4:])


def run_stage(scfg, stage):
    if stage == 'join':
        scfg.join_returns()
    elif stage == 'loop':
        scfg.restructure_loop()
    elif stage == 'branch':
        scfg.restructure_branch()


CPU_LIMIT_S = 60


def check_graph(g0, payload='plain', props=PROPS):
    """Returns list of failures: dict(prop, stage, kind, detail)."""
    fails = []
    scfg, blocks = make_scfg(g0, payload)
    t0 = time.process_time()
    from rtc import wrappers
    import contracts  # noqa
    wrappers.install()
    for si, stage in enumerate(STAGES):
        del wrappers.FAILS[:]
        try:
            run_stage(scfg, stage)
        except Exception as e:   # C02: any exception is a failure
            fails.append({'prop': 'C02', 'stage': stage, 'kind': 'raise:' + type(e).__name__,
                          'detail': list(frames(e)) + [str(e)[:120]]})
            break
        for wf in wrappers.FAILS[:3]:
            if 'C14' in props or True:
                fails.append({'prop': 'C14', 'stage': stage, 'kind': 'call-contract:%s:%s' % (wf['function'], wf['clause'].split(':')[0][:40]),
                              'detail': [wf['clause'][:200], str(wf['args'])[:300]]})
        if time.process_time() - t0 > CPU_LIMIT_S:
            fails.append({'prop': 'C02', 'stage': stage, 'kind': 'cpu-time', 'detail': []})
            break
        checks = [
            ('C04', lambda: H.wf(scfg)),
            ('C05', lambda: H.conserved(blocks, scfg, joined=True)),
            ('C06', lambda: H.tables_ok(scfg)),
            ('C01', lambda: H.path_equiv(g0, scfg, H.W1)),
            ('C01', lambda: H.path_equiv(g0, scfg, H.W2)),
            ('C16', lambda: H.iter_ok(scfg)),
            ('C16', lambda: H.view_ok(scfg)),
        ]
        if stage == 'branch':
            checks.append(('C03', lambda: H.structured(scfg)))
        for i, (prop, fn) in enumerate(checks):
            if prop not in props:
                continue
            try:
                fn()
            except H.Bad as e:
                kind = e.kind
                p = prop
                if kind.startswith('ctrl-') or kind in ('table-not-target', 'unsteered'):
                    p = 'C06'
                    if 'C06' not in props:
                        continue
                which = ':W2' if (prop == 'C01' and i == 4) else (':W1' if prop == 'C01' else '')
                fails.append({'prop': p, 'stage': stage, 'kind': kind + which, 'detail': [repr(x)[:100] for x in e.args[0][1:]]})
            except Exception as e:
                fails.append({'prop': prop, 'stage': stage, 'kind': 'check-crash:' + type(e).__name__,
                              'detail': [traceback.format_exc()[-300:]]})
    return [f for f in fails if f['prop'] in props or f['prop'] == 'C14']


def work_chunk(args):
    """(n, start, stop, payload) over raw indices -> summary."""
    n, start, stop, payload = args
    out = {'closed': 0, 'nontrivial': 0, 'fails': [], 'samples': []}
    for idx in range(start, stop):
        succ = graph_from_index(n, idx)
        if not is_closed(succ):
            continue
        g0 = to_named(succ)
        out['closed'] += 1
        if nontrivial(g0):
            out['nontrivial'] += 1
        if len(out['samples']) < 1 and nontrivial(g0):
            out['samples'].append(g0)
        for f in check_graph(g0, payload):
            f['graph'] = g0
            f['n'] = n
            f['idx'] = idx
            out['fails'].append(f)
    from rtc import wrappers
    out['call_counts'] = dict(wrappers.COUNTS)
    wrappers.COUNTS.clear()
    return out


def work_random(args):
    n, count, seed, payload = args
    rng = random.Random(seed * 1000003 + n)
    out = {'closed': 0, 'nontrivial': 0, 'fails': [], 'samples': []}
    seen = set()
    three = payload == 'plain3'
    if three:
        payload = 'plain'
    for _ in range(count):
        succ = random_closed3(n, rng) if three else random_closed(n, rng)
        g0 = to_named(succ)
        key = tuple(sorted(g0.items()))
        if key in seen:
            continue
        seen.add(key)
        out['closed'] += 1
        out['nontrivial'] += 1 if nontrivial(g0) else 0
        if len(out['samples']) < 1:
            out['samples'].append(g0)
        # multi-way input blocks are outside the domain of C01/C02/C04-C06 (no front end produces them); they are
        # used for C03 only: whenever restructuring completes on them the result must be structured
        for f in (check_graph(g0, payload, props=('C03',)) if three else check_graph(g0, payload)):
            if three and f['prop'] != 'C03':
                continue
            f['graph'] = g0
            f['n'] = n
            f['idx'] = None
            out['fails'].append(f)
    from rtc import wrappers
    out['call_counts'] = dict(wrappers.COUNTS)
    wrappers.COUNTS.clear()
    return out


if __name__ == '__main__':
    import collections
    import multiprocessing as mp
    nmax = int(sys.argv[1]) if len(sys.argv) > 1 else 3
    tasks = []
    for n in range(1, nmax + 1):
        raw = raw_count(n)
        step = max(1, raw // 64)
        for s in range(0, raw, step):
            tasks.append((n, s, min(raw, s + step), 'plain'))
    for n in (6, 8, 10, 12):
        tasks.append(('R', n))
    t0 = time.time()
    stat = collections.Counter()
    ex = {}
    with mp.Pool(16) as pool:
        res = pool.map(work_chunk, [t for t in tasks if t[0] != 'R'])
        res += pool.map(work_random, [(t[1], 150, 1, 'plain') for t in tasks if t[0] == 'R'])
    closed = sum(r['closed'] for r in res)
    for r in res:
        for f in r['fails']:
            k = (f['prop'], f['stage'], f['kind'])
            stat[k] += 1
            ex.setdefault(k, (f['graph'], f['detail']))
    print('closed graphs', closed, 'time', round(time.time() - t0, 1))
    cc = collections.Counter()
    for r in res:
        cc.update(r.get('call_counts', {}))
    print(dict(cc))
    for k, v in sorted(stat.items()):
        print(k, v, ex[k])
