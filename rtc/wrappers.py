"""E2 at every internal call: the sidecar contracts wrapped around the real functions inside the
checker process, so that each real call made by the restructuring pipeline is checked against its
contract (requires / ensures / hierarchy clause), not only the entry points (DESIGN 2.6)."""
from __future__ import annotations
import collections
import inspect
import types

from pyvc.contract import REGISTRY
from contracts.macros import runtime_namespace, ceval
from rtc.fuzz import real_function, describe

FAILS: list = []
COUNTS = collections.Counter()
_installed = {}
_ns = None

WRAPPED = [
    'numba_scfg.core.datastructures.scfg:SCFG.insert_block',
    'numba_scfg.core.datastructures.scfg:SCFG.insert_block_and_control_blocks',
    'numba_scfg.core.datastructures.scfg:SCFG.join_returns',
    'numba_scfg.core.datastructures.scfg:SCFG.join_tails_and_exits',
    'numba_scfg.core.datastructures.basic_block:SyntheticBranch.replace_jump_targets',
]


def snap(v):
    if type(v).__name__ == 'SCFG':
        return types.SimpleNamespace(graph=dict(v.graph), name_gen=types.SimpleNamespace(kinds=dict(v.name_gen.kinds)))
    if isinstance(v, list):
        return list(v)
    if isinstance(v, set):
        return set(v)
    return v


def exiting_chain(blk):
    """[(region name, inner block)] down the chain of declared exiting blocks."""
    out = []
    steps = 0
    while type(blk).__name__ == 'RegionBlock' and blk.subregion is not None and steps < 100:
        steps += 1
        inner = blk.subregion.graph.get(blk.exiting)
        if inner is None:
            out.append((blk.name, None))
            break
        out.append((blk.name, inner))
        blk = inner
    return out


def fwd(b):
    return tuple(t for t in b._jump_targets if t not in b.backedges)


def hierarchy_pre(self, preds):
    pre = {}
    for p in preds:
        b = self.graph.get(p)
        if b is not None and type(b).__name__ == 'RegionBlock':
            pre[p] = [(r, None if i is None else (tuple(i._jump_targets), tuple(i.backedges))) for r, i in exiting_chain(b)]
    return pre


def hierarchy_post(self, preds, pre):
    """region predecessors: the exiting chain is re-targeted identically down to the innermost block,
    declared back edges stay where they were."""
    for p in preds:
        if p not in pre:
            continue
        b = self.graph.get(p)
        if b is None:
            return 'hierarchy: region predecessor %s vanished' % p
        chain = exiting_chain(b)
        cur = b
        for (rname, inner), (_, before) in zip(chain, pre[p]):
            if inner is None or before is None:
                return 'hierarchy: exiting block of %s missing' % rname
            if fwd(inner) != fwd(cur):
                return 'hierarchy: exiting block %s of region %s has targets %r, the region has %r' % (inner.name, rname, fwd(inner), fwd(cur))
            bj, bb = before
            same_len = len(inner._jump_targets) == len(bj)
            if tuple(inner.backedges) != bb or [t for t in inner._jump_targets if t in inner.backedges] != [t for t in bj if t in bb] \
                    or (same_len and [i for i, t in enumerate(inner._jump_targets) if t in inner.backedges] != [i for i, t in enumerate(bj) if t in bb]):
                return 'hierarchy: back edges of exiting block %s moved: %r/%r -> %r/%r' % (inner.name, bj, bb, inner._jump_targets, inner.backedges)
            cur = inner
    return None


def make_wrapper(qual):
    c = REGISTRY[qual]
    orig, mod = real_function(qual)
    sig = inspect.signature(orig)
    short = qual.split(':')[1]

    def wrapper(*a, **kw):
        global _ns
        if _ns is None:
            _ns = runtime_namespace()
        try:
            ba = sig.bind(*a, **kw)
            ba.apply_defaults()
            args = dict(ba.arguments)
        except TypeError:
            return orig(*a, **kw)
        env = dict(_ns)
        env.update(args)
        pre_ok, known = True, False
        try:
            for cn, text in c.requires.items():
                if not ceval(text, env):
                    pre_ok = False
                    COUNTS[short + ':pre-false:' + cn] += 1
                    break
            for kid, text in c.known.items():
                if ceval(text, env):
                    known = True
        except Exception as e:
            pre_ok = False
            COUNTS[short + ':pre-error'] += 1
        old = types.SimpleNamespace(**{k: snap(v) for k, v in args.items()})
        hp = None
        if 'predecessors' in args and type(args.get('self')).__name__ == 'SCFG':
            hp = hierarchy_pre(args['self'], args['predecessors'])
        res = orig(*a, **kw)
        COUNTS[short] += 1
        if pre_ok and not known:
            env = dict(_ns)
            env.update(args)
            env['old'] = old
            env['result'] = res
            for cn, text in list(c.ensures.items()) + list(c.runtime_ensures.items()):
                try:
                    ok = ceval(text, env)
                except Exception as e:
                    ok = False
                    cn = cn + ' (evaluation raised %r)' % (e,)
                if not ok:
                    FAILS.append({'function': short, 'clause': 'post[%s]' % cn,
                                  'args': {k: describe(v) for k, v in vars(old).items() if k != 'self'}})
                    break
        if hp is not None:
            msg = hierarchy_post(args['self'], args['predecessors'], hp)
            if msg:
                FAILS.append({'function': short, 'clause': msg, 'args': {k: describe(v) for k, v in vars(old).items() if k != 'self'}})
        return res
    wrapper.__wrapped__ = orig
    return wrapper, orig


def install():
    import importlib
    for qual in WRAPPED:
        if qual in _installed:
            continue
        modname, path = qual.split(':')
        cls_name, meth = path.split('.')
        cls = getattr(importlib.import_module(modname), cls_name)
        w, orig = make_wrapper(qual)
        _installed[qual] = (cls, meth, cls.__dict__[meth])
        setattr(cls, meth, w)


def uninstall():
    for qual, (cls, meth, raw) in list(_installed.items()):
        setattr(cls, meth, raw)
        del _installed[qual]
