#!/bin/sh
# Builds /verif/.venv offline: python 3.12 venv layered over /venv's site-packages
# (numba_scfg, yaml, graphviz, pytest) + z3-solver, cvc5, jsonschema from the local wheelhouse.
set -e
cd "$(dirname "$0")"
if [ -x .venv/bin/python ] && .venv/bin/python -c "import z3, cvc5, jsonschema, yaml, graphviz" 2>/dev/null; then
  echo "setup: .venv already usable"; exit 0
fi
rm -rf .venv
/venv/bin/python -m venv .venv
echo "import site; site.addsitedir('/venv/lib/python3.12/site-packages')" > .venv/lib/python3.12/site-packages/_repo_overlay.pth
PIP_NO_INDEX=1 .venv/bin/pip install -q --no-index --find-links /opt/veriftools/wheels z3-solver cvc5 jsonschema
.venv/bin/python -c "import z3, cvc5, jsonschema, yaml, graphviz; print('setup ok, z3', z3.get_version_string())"
