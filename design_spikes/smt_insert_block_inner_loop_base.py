# Same VCs, array+length encoding of lists.
from z3 import *
import time
Name = DeclareSort('Name'); SetN=ArraySort(Name,BoolSort()); Arr=ArraySort(IntSort(),Name)
class L:
    def __init__(s,a,n): s.a=a; s.n=n
def memb(l,t):
    k=FreshInt('k'); return Exists([k],And(0<=k,k<l.n,l.a[k]==t))
def distinct(l):
    a,b=FreshInt('a'),FreshInt('b'); return ForAll([a,b],Implies(And(0<=a,a<b,b<l.n), l.a[a]!=l.a[b]))
def before(l,x,y):
    a,b=FreshInt('a'),FreshInt('b'); return Exists([a,b],And(0<=a,a<b,b<l.n,l.a[a]==x,l.a[b]==y))
def check(name,hyps,goal,timeout=30000):
    s=Solver(); s.set('timeout',timeout); s.add(*hyps); s.add(Not(goal))
    t0=time.time(); r=s.check(); print(f"{name:40s} {'proved' if r==unsat else r}  {time.time()-t0:.2f}s")
jt0=L(Const('jt0',Arr),Int('n0')); jt=L(Const('jt',Arr),Int('n')); new=Const('new',Name)
Sdone=Const('Sdone',SetN); s=Const('s',Name); x,y=Const('x',Name),Const('y',Name)
def Inv(jt,Sdone):
    return And(jt.n>=0, distinct(jt),
      ForAll([x], memb(jt,x)==Or(And(memb(jt0,x),Not(Sdone[x])), And(x==new, Exists([y],And(Sdone[y],memb(jt0,y)))))),
      ForAll([x,y], Implies(And(x!=new,y!=new,Not(Sdone[x]),Not(Sdone[y])), before(jt,x,y)==before(jt0,x,y))))
pre=[jt0.n>=0, distinct(jt0), Not(memb(jt0,new)), Not(Sdone[new])]
idx=Int('idx'); isidx=And(0<=idx, idx<jt.n, jt.a[idx]==s)
hy=pre+[Inv(jt,Sdone), Not(Sdone[s]), s!=new]
check("init", pre+[Sdone==K(Name,False)], Inv(jt0,Sdone))
jtA=L(Store(jt.a,idx,new), jt.n)
check("step store", hy+[isidx, Not(memb(jt,new))], Inv(jtA, Store(Sdone,s,True)))
pa=Const('pa',Arr); j=Int('j')
popdef=ForAll([j], pa[j]==If(j<idx, jt.a[j], jt.a[j+1]))
jtB=L(pa, jt.n-1)
check("step pop", hy+[isidx, memb(jt,new), popdef], Inv(jtB, Store(Sdone,s,True)))
check("step skip", hy+[Not(memb(jt,s))], Inv(jt, Store(Sdone,s,True)))
