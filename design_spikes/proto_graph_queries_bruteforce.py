import itertools, collections, sys, traceback, logging
logging.disable(logging.CRITICAL)
from numba_scfg.core.datastructures.scfg import SCFG
from numba_scfg.core.datastructures.basic_block import BasicBlock
from numba_scfg.core import transformations as T
def reach1(g,a):  # nodes reachable by >=1 edge (including external names)
    seen=set(); st=list(g.get(a,()))
    while st:
        x=st.pop()
        if x in seen: continue
        seen.add(x); st.extend(g.get(x,()))
    return seen
stat=collections.Counter(); ex={}
def note(k,v): stat[k]+=1; ex.setdefault(k,v)
N=3
names=[str(i) for i in range(N)]+['X']   # X external
tgt_choices=[()]+[c for r in (1,2,3) for c in itertools.product(names,repeat=r)]
tgt_choices=[c for c in tgt_choices if len(c)<=2 or True]
import random
rng=random.Random(0)
allg=list(itertools.product(tgt_choices,repeat=N))
rng.shuffle(allg); allg=allg[:60000]
for combo in allg:
    g={str(i):combo[i] for i in range(N)}
    s=SCFG({k:BasicBlock(k,v) for k,v in g.items()})
    stat['graphs']+=1
    # scc
    try:
        sccs=s.compute_scc()
        R={a:reach1({k:[t for t in v if t in g] for k,v in g.items()},a) for a in g}
        want=set()
        for a in g:
            comp=frozenset([a]+[b for b in g if b in R[a] and a in R[b]])
            want.add(comp)
        if set(map(frozenset,sccs))!=want or sum(map(len,sccs))!=N: note('scc',(g,sccs))
    except Exception as e: note('scc-raise',(g,repr(e)))
    # reachability
    for a in g:
        for b in names:
            try:
                if s.is_reachable_dfs(a,b)!=(b in reach1(g,a)): note('reach',(g,a,b))
            except Exception as e: note('reach-raise',(g,a,b,repr(e)))
    # head
    heads=[k for k in g if not any(k in v for v in g.values())]
    try:
        h=s.find_head()
        if [h]!=heads: note('head',(g,h,heads))
    except AssertionError:
        if len(heads)==1: note('head-raise',(g,heads))
    # subset queries
    for r in range(1,N+1):
        for sub in itertools.combinations(g,r):
            sub=set(sub)
            hd={t for k,v in g.items() if k not in sub for t in v if t in sub}
            en={k for k,v in g.items() if k not in sub and any(t in sub for t in v)}
            try:
                H,E=s.find_headers_and_entries(set(sub))
                if hd and (set(H),set(E))!=(hd,en): note('hdr',(g,sub,H,E))
                if not hd and len(heads)==1 and (H!=heads): note('hdr-empty',(g,sub,H,E))
            except AssertionError as e:
                if hd or len(heads)==1: note('hdr-raise',(g,sub))
            xg={k for k in sub if any(t not in sub for t in g[k]) or not g[k]}
            xs={t for k in sub for t in g[k] if t not in sub}
            Xg,Xs=s.find_exiting_and_exits(set(sub))
            if (set(Xg),set(Xs))!=(xg,xs): note('exit',(g,sub,Xg,Xs))
    # dominators (internal edges only); entries = no preds
    gi={k:[t for t in v if t in g] for k,v in g.items()}
    ents=[k for k in g if not any(k in v for v in gi.values())]
    if ents:
        try:
            d=T._doms(s)
            # path based: a dom b iff removing a makes b unreachable from all entries (or a==b)
            for bnode in g:
                want={bnode}
                for a in g:
                    if a==bnode: continue
                    seen=set(e for e in ents if e!=a); st=list(seen)
                    while st:
                        x=st.pop()
                        for y in gi[x]:
                            if y!=a and y not in seen: seen.add(y); st.append(y)
                    if bnode not in seen: want.add(a)
                if d[bnode]!=want: note('dom',(g,bnode,d[bnode],want))
        except Exception as e: note('dom-raise',(g,repr(e)))
print(stat)
for k,v in ex.items(): print(k,v)
