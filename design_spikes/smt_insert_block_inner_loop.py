from z3 import *
import time, sys
import os; exec(open(os.path.join(os.path.dirname(os.path.abspath(__file__)),'smt_insert_block_inner_loop_base.py')).read().split("pre=[")[0])
def InvC(jt,Sdone):
    return [("len",jt.n>=0), ("distinct",distinct(jt)),
      ("memb=>",ForAll([x], Implies(memb(jt,x),Or(And(memb(jt0,x),Not(Sdone[x])), And(x==new, Exists([y],And(Sdone[y],memb(jt0,y)))))))),
      ("memb<=a",ForAll([x], Implies(And(memb(jt0,x),Not(Sdone[x])), memb(jt,x)))),
      ("memb<=b",Implies(Exists([y],And(Sdone[y],memb(jt0,y))), memb(jt,new))),
      ("before=>",ForAll([x,y], Implies(And(x!=new,y!=new,Not(Sdone[x]),Not(Sdone[y]),before(jt,x,y)),before(jt0,x,y)))),
      ("before<=",ForAll([x,y], Implies(And(x!=new,y!=new,Not(Sdone[x]),Not(Sdone[y]),before(jt0,x,y)),before(jt,x,y))))]
def Inv(jt,Sdone): return And(*[c for _,c in InvC(jt,Sdone)])
pre=[jt0.n>=0, distinct(jt0), Not(memb(jt0,new)), Not(Sdone[new])]
idx=Int('idx'); isidx=And(0<=idx, idx<jt.n, jt.a[idx]==s)
hy=pre+[Inv(jt,Sdone), Not(Sdone[s]), s!=new]
def checkall(name,hyps,jtn,Sd):
    for cn,c in InvC(jtn,Sd): check(name+" / "+cn,hyps,c,20000)
jtA=L(Store(jt.a,idx,new), jt.n)
checkall("store", hy+[isidx, Not(memb(jt,new))], jtA, Store(Sdone,s,True))
pa=Const('pa',Arr); j=Int('j')
popdef=And(ForAll([j], pa[j]==If(j<idx, jt.a[j], jt.a[j+1]), patterns=[pa[j]]), ForAll([j], jt.a[j]==If(j<idx, pa[j], pa[j-1]) if False else Implies(j!=idx, jt.a[j]==If(j<idx,pa[j],pa[j-1])), patterns=[jt.a[j]]))
jtB=L(pa, jt.n-1)
checkall("pop", hy+[isidx, memb(jt,new), popdef], jtB, Store(Sdone,s,True))
