import random, sys, traceback, collections
from numba_scfg.core.datastructures.scfg import SCFG
from numba_scfg.core.datastructures.basic_block import BasicBlock

def rand_closed_cfg(n, rng):
    # nodes 0..n-1 ; 0 entry; each node <=2 distinct succs; all reachable from 0 and reach an exit
    while True:
        succ = {}
        for i in range(n):
            k = rng.choice([0,1,1,2,2])
            cands = [j for j in range(1,n)]  # no edges into entry
            rng.shuffle(cands)
            succ[i] = tuple(cands[:k])
        # reachability
        seen={0}; st=[0]
        while st:
            x=st.pop()
            for y in succ[x]:
                if y not in seen: seen.add(y); st.append(y)
        if len(seen)!=n: continue
        exits=[i for i in range(n) if not succ[i]]
        if not exits: continue
        # every node reaches an exit
        pred=collections.defaultdict(set)
        for a,bs in succ.items():
            for b in bs: pred[b].add(a)
        can=set(exits); st=list(exits)
        while st:
            x=st.pop()
            for y in pred[x]:
                if y not in can: can.add(y); st.append(y)
        if len(can)!=n: continue
        return succ

def build(succ):
    g={str(i): BasicBlock(name=str(i), _jump_targets=tuple(str(j) for j in js)) for i,js in succ.items()}
    return SCFG(graph=g)

rng=random.Random(int(sys.argv[1]) if len(sys.argv)>1 else 0)
for n in (5,7,9,12,18):
    fails=collections.Counter(); N=400
    ex={}
    for t in range(N):
        succ=rand_closed_cfg(n,rng)
        s=build(succ)
        try:
            s.restructure()
        except Exception as e:
            tb=traceback.extract_tb(e.__traceback__)[-1]
            key=(type(e).__name__, tb.filename.split('/')[-1], tb.lineno)
            fails[key]+=1
            ex.setdefault(key,succ)
    print(n, N, dict(fails))
    for k,v in ex.items(): print("   ",k,v)
