# _find_dominators_internal: assert-never-fails, fix point at exit, soundness wrt Dom
from z3 import *
import time
Name=DeclareSort('Name'); SetN=ArraySort(Name,BoolSort()); Map=ArraySort(Name,SetN); Arr=ArraySort(IntSort(),Name)
nodes,entries=Consts('nodes entries',SetN); preds,succs=Consts('preds succs',Map)
Dom=Function('Dom',Name,SetN); card=Function('card',SetN,IntSort())
x,y,p,n,s_=Consts('x y p n s_',Name); k,j=Ints('k j'); A,B=Consts('A B',SetN)
def F(doms,n):   # {n} U meet over preds (if preds nonempty) else {n}
    return Lambda([x], Or(x==n, And(Exists([p],preds[n][p]), ForAll([p],Implies(preds[n][p],doms[p][x])))))
ax=[ForAll([A,B],Implies(And(ForAll([x],Implies(A[x],B[x])),Exists([x],And(B[x],Not(A[x])))), card(A)<card(B))),   # strict monotonicity (finite sets)
    # Dom is a fix point of the equations and lives inside nodes
    ForAll([n,x],Implies(And(nodes[n],entries[n]),Dom(n)[x]==(x==n))),
    ForAll([n,x],Implies(And(nodes[n],Not(entries[n]),Dom(n)[x]),Or(x==n,And(Exists([p],preds[n][p]),ForAll([p],Implies(preds[n][p],Dom(p)[x])))))),
    ForAll([n,x],Implies(Dom(n)[x],nodes[x]))]
pre=[ForAll([x],Implies(entries[x],nodes[x])),
     ForAll([x,y],Implies(preds[x][y],And(nodes[x],nodes[y]))),
     ForAll([x,y],succs[x][y]==preds[y][x])]
class L:
    def __init__(s,a,n): s.a=a; s.n=n
def intodo(td,z):
    return Exists([j],And(0<=j,j<td.n,td.a[j]==z))
def Inv(doms,td):
    return [("len",td.n>=0),
      ("todo-nodes",ForAll([k],Implies(And(0<=k,k<td.n),nodes[td.a[k]]))),
      ("entry-val",ForAll([n,x],Implies(And(nodes[n],entries[n]),doms[n][x]==(x==n)))),
      ("self",ForAll([n],Implies(nodes[n],doms[n][n]))),
      ("postfix",ForAll([n,x],Implies(And(nodes[n],Not(entries[n]),F(doms,n)[x]),doms[n][x]))),
      ("worklist",ForAll([n],Implies(And(nodes[n],Not(entries[n]),Exists([x],doms[n][x]!=F(doms,n)[x])),intodo(td,n)))),
      ("sound",ForAll([n,x],Implies(And(nodes[n],Dom(n)[x]),doms[n][x])))]
def conj(cs): return And(*[c for _,c in cs])
def check(name,hyps,goal,timeout=60000):
    s=Solver(); s.set('timeout',timeout); s.add(*ax); s.add(*pre); s.add(*hyps); s.add(Not(goal))
    t0=time.time(); r=s.check(); print(f"{name:40s} {'proved' if r==unsat else r}  {time.time()-t0:.2f}s")
doms=Const('doms',Map); td=L(Const('td',Arr),Int('tdn'))
hy=[conj(Inv(doms,td)), td.n>0]
nn=td.a[td.n-1]; tdp=L(td.a,td.n-1)
new=F(doms,nn)
# skip branches
for cn,c in Inv(doms,tdp): check("n in entries: continue/"+cn, hy+[entries[nn]], c)
differs=Exists([x],new[x]!=doms[nn][x])
for cn,c in Inv(doms,tdp): check("unchanged/"+cn, hy+[Not(entries[nn]),Not(differs)], c)
check("ASSERT len(new)<len(old)", hy+[Not(entries[nn]),differs], card(new)<card(doms[nn]))
doms2=Store(doms,nn,new)
ea=Const('ea',Arr); m=td.n-1; sl=L(Const('sl',Arr),Int('sln'))   # list(succs_table[n]) in arbitrary order
slp=[sl.n>=0, ForAll([x],succs[nn][x]==Exists([j],And(0<=j,j<sl.n,sl.a[j]==x)))]
ext=And(ForAll([k],ea[k]==If(k<m,td.a[k],sl.a[k-m]),patterns=[ea[k]]),
        ForAll([k],Implies(And(0<=k,k<sl.n),sl.a[k]==ea[k+m]),patterns=[sl.a[k]]))
tde=L(ea,m+sl.n)
for cn,c in Inv(doms2,tde): check("update+extend/"+cn, hy+slp+[Not(entries[nn]),differs,ext], c)
# exit: fix point + soundness
check("EXIT fixpoint", [conj(Inv(doms,td)), td.n==0], ForAll([n,x],Implies(And(nodes[n],Not(entries[n])),doms[n][x]==F(doms,n)[x])))
check("CANARY (must NOT prove)", hy+slp+[Not(entries[nn]),differs,ext], BoolVal(False), 20000)
