import random, sys, traceback, collections
sys.argv=['x']
import io, contextlib
with contextlib.redirect_stdout(io.StringIO()):
    from probe1 import rand_closed_cfg, build
from numba_scfg.core.datastructures.basic_block import RegionBlock, SyntheticBranch, SyntheticAssignment
from numba_scfg.core.datastructures.scfg import SCFG

def check_hier(scfg, enclosing, problems, names):
    # enclosing: list of sets of names visible in enclosing levels
    here=set(scfg.graph)
    for n,b in scfg.graph.items():
        if n in names: problems.append(('dup',n))
        names.add(n)
        if b.name!=n: problems.append(('keyname',n,b.name))
        for t in tuple(b._jump_targets)+tuple(b.backedges):
            if t not in here and not any(t in e for e in enclosing):
                problems.append(('dangling',n,t))
        if isinstance(b,RegionBlock):
            sub=b.subregion
            if b.header not in sub.graph: problems.append(('hdr',n,b.header))
            if b.exiting not in sub.graph: problems.append(('exiting',n,b.exiting))
            else:
                ex=sub.graph[b.exiting]
                if tuple(ex._jump_targets)!=tuple(b._jump_targets) and set(ex.jump_targets)!=set(b.jump_targets):
                    problems.append(('regjt',n,b._jump_targets,ex._jump_targets, ex.backedges))
            if sub.region is not b: problems.append(('subregion.region',n))
            check_hier(sub, enclosing+[here], problems, names)
            for k,v in sub.graph.items():
                if isinstance(v,RegionBlock) and v.parent_region is not b: problems.append(('parent',k))
        if isinstance(b,SyntheticBranch):
            if set(b.branch_value_table.values())!=set(b._jump_targets): problems.append(('table',n,b.branch_value_table,b._jump_targets))

rng=random.Random(11)
stat=collections.Counter(); ex={}
for n in (5,6,7,8,9):
    for t in range(500):
        succ=rand_closed_cfg(n,rng); s=build(succ)
        try: s.restructure()
        except Exception as e:
            stat['raise']+=1; continue
        pr=[]; check_hier(s,[],pr,set())
        for p in pr:
            stat[p[0]]+=1; ex.setdefault(p[0],(succ,p))
        if not pr: stat['ok']+=1
        # views
        try:
            def walk(sc):
                v=list(sc.concealed_region_view)
                if set(v)!=set(sc.graph) : stat['view_incomplete']+=1; ex.setdefault('view',(succ,v,list(sc.graph)))
                for b in sc.graph.values():
                    if isinstance(b,RegionBlock): walk(b.subregion)
            walk(s)
        except Exception as e:
            stat['view_raise:'+type(e).__name__]+=1; ex.setdefault('view_raise',(succ,repr(e)))
print(stat)
for k,v in ex.items(): print(k,v)
