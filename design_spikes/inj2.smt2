(set-logic ALL)
; digits abstracted: d1,d2 are nonempty digit strings (what str(int>=0) returns); injectivity of str() on ints assumed separately
(declare-const k1 String)(declare-const k2 String)(declare-const d1 String)(declare-const d2 String)
(assert (str.in_re d1 (re.+ (re.range "0" "9"))))
(assert (str.in_re d2 (re.+ (re.range "0" "9"))))
(assert (= (str.++ k1 "_block_" d1) (str.++ k2 "_block_" d2)))
(assert (not (and (= k1 k2) (= d1 d2))))
(check-sat)
