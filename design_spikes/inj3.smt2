(set-logic ALL)
; block vs region namespace never collide
(declare-const k1 String)(declare-const k2 String)(declare-const d1 String)(declare-const d2 String)
(assert (str.in_re d1 (re.+ (re.range "0" "9"))))
(assert (str.in_re d2 (re.+ (re.range "0" "9"))))
(assert (= (str.++ k1 "_block_" d1) (str.++ k2 "_region_" d2)))
(check-sat)
