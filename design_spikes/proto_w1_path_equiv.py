import sys
REPO=sys.argv[1] if len(sys.argv)>1 else '/repo'
sys.path.insert(0,REPO)
import io, contextlib, random, collections, logging
logging.disable(logging.CRITICAL)
from numba_scfg.core.datastructures.basic_block import *
from numba_scfg.core.datastructures.scfg import SCFG
import numba_scfg; 
def gen(n,rng):
    import collections
    while True:
        succ={}
        for i in range(n):
            k=rng.choice([0,1,1,2,2]); c=list(range(n)); rng.shuffle(c); succ[i]=tuple(c[:k])
        nop=[i for i in range(n) if not any(i in v for v in succ.values())]
        if len(nop)!=1: continue
        seen={nop[0]}; st=[nop[0]]
        while st:
            x=st.pop()
            for y in succ[x]:
                if y not in seen: seen.add(y); st.append(y)
        if len(seen)!=n: continue
        pred=collections.defaultdict(set)
        for a,bs in succ.items():
            for b in bs: pred[b].add(a)
        ex=[i for i in range(n) if not succ[i]]
        if not ex: continue
        can=set(ex); st=list(ex)
        while st:
            x=st.pop()
            for y in pred[x]:
                if y not in can: can.add(y); st.append(y)
        if len(can)!=n: continue
        return {str(a):tuple(str(b) for b in bs) for a,bs in succ.items()}
class Bad(Exception): pass
def index(scfg):
    # name -> (block, level scfg, chain of enclosing scfgs)
    tab={}
    def rec(s,enc):
        for k,b in s.graph.items():
            if k in tab: raise Bad(('dupname',k))
            tab[k]=(b,s,enc)
            if isinstance(b,RegionBlock): rec(b.subregion,enc+[s])
    rec(scfg,[]); return tab
def resolve(tab,frm,name):
    # scoped lookup from the level of block `frm`
    b,lvl,enc=tab[frm]
    for s in [lvl]+enc[::-1]:
        if name in s.graph:
            t=s.graph[name]
            while isinstance(t,RegionBlock):
                t=t.subregion.graph[t.header]
            return t.name
    raise Bad(('dangling',frm,name))
def w1_next(tab,cur,i,env):
    """from leaf `cur` take decision i (None for synthetic) -> walk through synthetic blocks until a non-synthetic leaf or exit"""
    b=tab[cur][0]
    tgt=resolve(tab,cur,b._jump_targets[i])
    env=dict(env); steps=0
    while True:
        steps+=1
        if steps>10000: raise Bad(('synthetic-cycle',cur))
        t=tab[tgt][0]
        if not isinstance(t,SyntheticBlock): return tgt,env
        if isinstance(t,SyntheticAssignment): env.update(t.variable_assignment)
        if isinstance(t,SyntheticBranch):
            if t.variable not in env: raise Bad(('unassigned',tgt,t.variable))
            v=env[t.variable]
            if v not in t.branch_value_table: raise Bad(('range',tgt,v))
            nxt=t.branch_value_table[v]
            if nxt not in t._jump_targets: raise Bad(('table-not-target',tgt,nxt))
            tgt=resolve(tab,tgt,nxt)
        else:
            if len(t._jump_targets)==0: return None,env   # synthetic exit (return)
            if len(t._jump_targets)>1: raise Bad(('unsteered',tgt))
            tgt=resolve(tab,tgt,t._jump_targets[0])
def path_equiv(g0,scfg):
    tab=index(scfg)
    heads=[k for k in g0 if not any(k in v for v in g0.values())]
    e=heads[0]
    # entry of restructured: resolve head of top level
    top=scfg.find_head(); t=scfg.graph[top]
    while isinstance(t,RegionBlock): t=t.subregion.graph[t.header]
    start=t.name
    env0={}
    # allow leading synthetic blocks? entry must be the original entry
    if start!=e: raise Bad(('entry',start,e))
    seen=set(); st=[(e,())]
    while st:
        cur,envt=st.pop()
        if (cur,envt) in seen: continue
        seen.add((cur,envt)); env=dict(envt)
        b=tab[cur][0]
        if len(b._jump_targets)!=max(len(g0[cur]),0) and not (len(g0[cur])==0 and len(b._jump_targets)==1):
            raise Bad(('arity',cur,g0[cur],b._jump_targets))
        if len(g0[cur])==0:
            if len(b._jump_targets)==1:
                nxt,env2=w1_next(tab,cur,0,env)
                if nxt is not None: raise Bad(('exit-continues',cur,nxt))
            continue
        for i,want in enumerate(g0[cur]):
            nxt,env2=w1_next(tab,cur,i,env)
            if nxt!=want: raise Bad(('wrong-succ',cur,i,want,nxt))
            st.append((nxt,tuple(sorted(env2.items()))))
    return len(seen)
rng=random.Random(int(sys.argv[2]) if len(sys.argv)>2 else 0)
stat=collections.Counter(); ex={}
for n in (3,4,5,6,7,8,9,11):
    for t in range(250):
        g0=gen(n,rng)
        for stage in ('join','loop','branch'):
            s=SCFG({k:BasicBlock(k,v) for k,v in g0.items()})
            try:
                s.join_returns()
                if stage in('loop','branch'): s.restructure_loop()
                if stage=='branch': s.restructure_branch()
            except Exception as e:
                stat[stage,'raise',type(e).__name__]+=1; ex.setdefault((stage,'raise'),g0); continue
            try:
                path_equiv(g0,s); stat[stage,'ok']+=1
            except Bad as e:
                stat[stage,e.args[0][0]]+=1; ex.setdefault((stage,e.args[0][0]),(g0,e.args[0]))
            except Exception as e:
                stat[stage,'spec-crash',type(e).__name__]+=1; ex.setdefault((stage,'crash'),(g0,repr(e)))
print(numba_scfg.__file__)
for k,v in sorted(stat.items()): print(k,v)
for k,v in ex.items(): print(k,v)
