# is_reachable_dfs: invariant + R-ind, array+length lists, index-quantified membership
from z3 import *
import time
Name=DeclareSort('Name'); SetN=ArraySort(Name,BoolSort()); Arr=ArraySort(IntSort(),Name)
JTa=Function('JTa',Name,Arr); JTn=Function('JTn',Name,IntSort())     # jump_targets of graph[x] as (array,len)
dom=Const('dom',SetN); begin,end=Consts('begin end',Name)
Reach=Function('Reach1',Name,Name,BoolSort())
x,y,t=Consts('x y t',Name); k,j=Ints('k j')
def injt(a,t_):
    kk=FreshInt('kk'); return Exists([kk],And(0<=kk,kk<JTn(a),JTa(a)[kk]==t_))
ax=[ForAll([x],JTn(x)>=0),
    ForAll([x,k],Implies(And(0<=k,k<JTn(x)),Reach(x,JTa(x)[k])),patterns=[JTa(x)[k]]),            # base (begin has a block: pre)
    ForAll([x,y,k],Implies(And(Reach(x,y),dom[y],0<=k,k<JTn(y)),Reach(x,JTa(y)[k])),patterns=[MultiPattern(Reach(x,y),JTa(y)[k])])]
def Rind(seen):   # closure principle instantiated with `seen`
    return Implies(And(ForAll([k],Implies(And(0<=k,k<JTn(begin)),seen[JTa(begin)[k]])),
                       ForAll([x,k],Implies(And(seen[x],dom[x],0<=k,k<JTn(x)),seen[JTa(x)[k]]))),
                   ForAll([y],Implies(Reach(begin,y),seen[y])))
class L:
    def __init__(s,a,n): s.a=a; s.n=n
def Inv(seen,tv):
    return [("len",tv.n>=0),
     ("seen-reach",ForAll([x],Implies(seen[x],Reach(begin,x)))),
     ("tv-reach",ForAll([k],Implies(And(0<=k,k<tv.n),Reach(begin,tv.a[k])))),
     ("start",ForAll([k],Implies(And(0<=k,k<JTn(begin)),Or(seen[JTa(begin)[k]],Exists([j],And(0<=j,j<tv.n,tv.a[j]==JTa(begin)[k])))))),
     ("closed",ForAll([x,k],Implies(And(seen[x],dom[x],0<=k,k<JTn(x)),Or(seen[JTa(x)[k]],Exists([j],And(0<=j,j<tv.n,tv.a[j]==JTa(x)[k])))))),
     ("end-unseen",Not(seen[end]))]
def conj(cs): return And(*[c for _,c in cs])
def check(name,hyps,goal,timeout=30000):
    s=Solver(); s.set('timeout',timeout); s.add(*ax); s.add(*hyps); s.add(Not(goal))
    t0=time.time(); r=s.check(); print(f"{name:36s} {'proved' if r==unsat else r}  {time.time()-t0:.2f}s")
seen=Const('seen',SetN); tv=L(Const('tv',Arr),Int('tvn'))
pre=[dom[begin]]
# init: seen=empty, tv = list(JT(begin))
for cn,c in Inv(K(Name,False), L(JTa(begin),JTn(begin))): check("init/"+cn,pre,c)
hy=pre+[conj(Inv(seen,tv))]
# return False branch
check("post False", hy+[tv.n==0, Rind(seen)], Not(Reach(begin,end)))
# pop
block=tv.a[tv.n-1]; tvp=L(tv.a,tv.n-1)
hyp=hy+[tv.n>0]
for cn,c in Inv(seen,tvp): check("continue(seen)/"+cn, hyp+[seen[block]], c)
check("post True", hyp+[Not(seen[block]),block==end], Reach(begin,end))
# add to seen, not in graph
seen2=Store(seen,block,True)
for cn,c in Inv(seen2,tvp): check("add,notin graph/"+cn, hyp+[Not(seen[block]),block!=end,Not(dom[block])], c)
# add to seen, extend with JT(block)
ea=Const('ea',Arr); m=tv.n-1
ext=And(ForAll([k],ea[k]==If(k<m,tv.a[k],JTa(block)[k-m]),patterns=[ea[k]]),
        ForAll([k],Implies(And(0<=k,k<JTn(block)),JTa(block)[k]==ea[k+m]),patterns=[JTa(block)[k]]))
tve=L(ea,m+JTn(block))
for cn,c in Inv(seen2,tve): check("add,extend/"+cn, hyp+[Not(seen[block]),block!=end,dom[block],ext], c)
print("--- canaries / broken variant")
check("CANARY extend (must NOT prove)", hyp+[Not(seen[block]),block!=end,dom[block],ext], BoolVal(False))
check("CANARY post False (must NOT prove)", hy+[tv.n==0, Rind(seen)], BoolVal(False))
# broken body: forgets to extend to_visit with successors of block
for cn,c in Inv(seen2,tvp):
    if cn=="closed": check("BROKEN no-extend/"+cn+" (must NOT prove)", hyp+[Not(seen[block]),block!=end,dom[block]], c)
