import sys, io, contextlib, traceback, ast, logging
logging.disable(logging.CRITICAL)
from numba_scfg import AST2SCFG, SCFG2AST
from numba_scfg.core.datastructures.ast_transforms import AST2SCFGTransformer
def rt(src, argsets, env=None):
    orig={}; exec(src, orig)
    f=orig['f']
    try:
        scfg=AST2SCFG(src); scfg.restructure(); new=SCFG2AST(src, scfg); 
        code=ast.unparse(ast.fix_missing_locations(ast.Module([new],[])))
        ns={}; exec(code, ns); g=ns['transformed_f']
    except Exception as e:
        tb=traceback.extract_tb(e.__traceback__)[-1]
        return ("PIPE-"+type(e).__name__, str(e)[:80], f"{tb.filename.split('/')[-1]}:{tb.lineno}")
    out=[]
    for a in argsets:
        def run(h):
            try: return ('ret',h(*a))
            except Exception as e: return ('exc',type(e).__name__, str(e)[:60])
        r1,r2=run(f),run(g)
        out.append((a, 'SAME' if r1==r2 else ('DIFF',r1,r2)))
    return out
class O:
    def __init__(s,v): s.v=v
cases={
 "attr test": ("def f(o):\n    if o.v:\n        return 1\n    return 2\n", [(O(1),),(O(0),)]),
 "subscript test": ("def f(o):\n    if o[0]:\n        return 1\n    return 2\n", [([1],),([0],)]),
 "call test": ("def f(o):\n    if bool(o):\n        return 1\n    return 2\n", [(1,),(0,)]),
 "not test": ("def f(o):\n    if not o:\n        return 1\n    return 2\n", [(1,),(0,)]),
 "const test": ("def f(o):\n    while True:\n        o+=1\n        if o>3:\n            break\n    return o\n", [(1,),(0,)]),
 "empty iter": ("def f(n):\n    i=7\n    for i in range(n):\n        pass\n    return i\n", [(0,),(2,)]),
 "if if while": ("def f(a,b,n):\n    c=0\n    if a:\n        if b:\n            while c<n:\n                c+=1\n    return c\n", [(1,1,3),(0,1,3),(1,0,3)]),
 "nested andor": ("def f(a,b,c):\n    return a and (b or c)\n", [(1,0,5),(0,1,2),(1,2,3)]),
 "andor side": ("def f(a,l):\n    x = a and (l.append(1) or l.append(2))\n    return (x, list(l))\n", [(0,[]),(1,[])]),
 "binop bool": ("def f(a,l):\n    x = (l.append(1) or 1) + (a and l.append(2) or 2)\n    return (x,list(l))\n", [(0,[]),(1,[])]),
 "call arg order": ("def f(a,l):\n    x = max(l.append(1) or 1, (a and l.append(2)) or 2)\n    return (x,list(l))\n", [(0,[]),(1,[])]),
 "cmp chain": ("def f(a,l):\n    return (1 < a < (l.append(1) or 3), list(l))\n", [(0,[]),(2,[])]),
 "ifexp": ("def f(a):\n    return 1 if a else 2\n", [(0,),(1,)]),
 "unary bool": ("def f(a,b):\n    return not (a and b)\n", [(0,1),(1,1)]),
 "kw bool": ("def f(a,b):\n    return dict(x=a and b)\n", [(0,1),(1,1)]),
 "while else": ("def f(n):\n    c=0\n    while c<n:\n        c+=1\n        if c==2:\n            break\n    else:\n        c+=10\n    return c\n", [(0,),(1,),(5,)]),
 "for target tuple": ("def f(l):\n    s=0\n    for a,b in l:\n        s+=a*b\n    return s\n", [([(1,2),(3,4)],),([],)]),
}
for k,(src,args) in cases.items():
    print(k, rt(src,args))
