import logging, ast, collections, random, itertools
logging.disable(logging.CRITICAL)
from numba_scfg.core.datastructures.scfg import SCFG, NameGenerator
from numba_scfg.core.datastructures.basic_block import *
# C18: names in generator namespace
names={0:'synth_return_block_0',1:'a',2:'b',3:'c'}
g={names[0]:BasicBlock(names[0],('a','b')),'a':BasicBlock('a',()),'b':BasicBlock('b',())}
s=SCFG(g); before=set(s.graph)
s.join_returns()
print("C18 clobber:", before, '->', {k:(type(v).__name__,v._jump_targets) for k,v in s.graph.items()})
# yaml load then restructure: flat graph round trip then continue
s=SCFG({'0':BasicBlock('0',('1','2')),'1':BasicBlock('1',('3',)),'2':BasicBlock('2',('3',)),'3':BasicBlock('3',())})
d=s.to_dict(); s2,_=SCFG.from_dict(d); print("reload kinds:", s.name_gen.kinds, s2.name_gen.kinds)
# C10 census
from numba_scfg import AST2SCFG, SCFG2AST
def census(src):
    g=AST2SCFG(src); g.restructure()
    want=collections.Counter()
    for n,b in g:
        if type(b) is SyntheticAssignment:
            for k,v in b.variable_assignment.items(): want[f"{k} = {v}"]+=1
    tree=SCFG2AST(src,g); got=collections.Counter()
    for node in ast.walk(tree):
        if isinstance(node,ast.Assign) and isinstance(node.targets[0],ast.Name) and node.targets[0].id.startswith('__scfg_') and isinstance(node.value,ast.Constant) and isinstance(node.value.value,int) and not isinstance(node.value.value,bool):
            got[f"{node.targets[0].id} = {node.value.value}"]+=1
    return want,got
# generate structured programs
rng=random.Random(3)
def gen_block(d,inloop):
    n=rng.randint(1,3); out=[]
    for _ in range(n):
        k=rng.random()
        if d>0 and k<0.25: out+= ["if p():"]+["    "+l for l in gen_block(d-1,inloop)]+ (["else:"]+["    "+l for l in gen_block(d-1,inloop)] if rng.random()<.5 else [])
        elif d>0 and k<0.45: out+= ["while p():"]+["    "+l for l in gen_block(d-1,True)]+(["else:"]+["    "+l for l in gen_block(d-1,inloop)] if rng.random()<.3 else [])
        elif d>0 and k<0.55: out+= ["for i in it():"]+["    "+l for l in gen_block(d-1,True)]
        elif k<0.65 and inloop: out.append(rng.choice(["break","continue"])); break
        elif k<0.72: out.append("return e()"); break
        else: out.append("e()")
    return out
stat=collections.Counter(); ex={}
for i in range(1500):
    src="def f():\n"+"\n".join("    "+l for l in gen_block(3,False))+"\n"
    try:
        w,g_=census(src)
        if w!=g_: stat['census-mismatch']+=1; ex.setdefault('m',(src,w-g_,g_-w))
        else: stat['ok']+=1
    except Exception as e:
        stat['raise-'+type(e).__name__]+=1; ex.setdefault(type(e).__name__,src)
print(stat)
for k,v in ex.items():
    print('=====',k); print(v if isinstance(v,str) else v[0]); 
    if not isinstance(v,str): print(v[1:])
