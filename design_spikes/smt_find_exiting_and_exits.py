# Hand-written VCs for SCFG.find_exiting_and_exits, in the shape a generator would emit.
from z3 import *
import time
Name = DeclareSort('Name')
SeqN = SeqSort(Name)
SetN = ArraySort(Name, BoolSort())
JT = Function('JT', Name, SeqN)        # jump_targets of graph[b]  (abstracts property)
dom = Const('dom', SetN)
sub = Const('sub', SetN)
def memb(s, t):
    kq=FreshInt("kq"); return Exists([kq],And(0<=kq,kq<Length(s),s[kq]==t))
def memb_old(s,t):
    return Contains(s, Unit(t))
b,t,k = Const('b',Name), Const('t',Name), Int('k')
def Ex(done):   # spec set-builders as predicates
    return lambda x: And(done[x], Or(Length(JT(x))==0, Exists([t], And(memb(JT(x),t), Not(sub[t])))))
def Xs(done):
    return lambda y: Exists([b], And(done[b], memb(JT(b),y), Not(sub[y])))
def seteq(S, pred):
    x=Const('x!q',Name)
    return ForAll([x], S[x]==pred(x))
def check(name, hyps, goal, timeout=20000):
    s=Solver(); s.set('timeout',timeout)
    for h in hyps: s.add(h)
    s.add(Not(goal))
    t0=time.time(); r=s.check(); print(f"{name:40s} {'proved' if r==unsat else r}  {time.time()-t0:.2f}s")
    if r==sat: print(s.model())

done=Const('done',SetN); exiting=Const('exiting',SetN); exits=Const('exits',SetN)
inside=Const('inside',Name)
# outer invariant
Iout = lambda done,exiting,exits: And(seteq(exiting,Ex(done)), seteq(exits,Xs(done)), ForAll([b],Implies(done[b],sub[b])))
# inner loop over jts = JT(inside), index i
i=Int('i'); jts=JT(inside)
def Iin(i,exiting,exits):
    x=Const('x!i',Name); y=Const('y!i',Name); kk=Int('kk')
    return And(0<=i, i<=Length(jts),
        ForAll([x], exiting[x]==Or(Ex(done)(x), And(x==inside, Exists([kk],And(0<=kk,kk<i,Not(sub[jts[kk]])))))),
        ForAll([y], exits[y]==Or(Xs(done)(y), Exists([kk],And(0<=kk,kk<i,jts[kk]==y,Not(sub[y]))))))
pre=[ForAll([b],Implies(sub[b],dom[b]))]
# VC1: init outer
empty=K(Name,False)
check("outer init", pre, Iout(empty,empty,empty))
# VC2: inner init
hy=pre+[Iout(done,exiting,exits), sub[inside], Not(done[inside])]
check("inner init", hy, Iin(0,exiting,exits))
# VC3: inner step
ex2=Const('ex2',SetN); xs2=Const('xs2',SetN)
jt=jts[i]
hy3=hy+[Iin(i,exiting,exits), i<Length(jts)]
check("inner step (then)", hy3+[Not(sub[jt])], Iin(i+1, Store(exiting,inside,True), Store(exits,jt,True)))
check("inner step (else)", hy3+[sub[jt]], Iin(i+1, exiting, exits))
# VC4: after inner, is_exiting branch, outer preserved
hy4=hy+[Iin(Length(jts),exiting,exits)]
check("outer step (is_exiting)", hy4+[Length(jts)==0], Iout(Store(done,inside,True), Store(exiting,inside,True), exits))
check("outer step (not is_exiting)", hy4+[Length(jts)!=0], Iout(Store(done,inside,True), exiting, exits))
# VC5: post
check("post", pre+[Iout(sub,exiting,exits)], And(seteq(exiting,Ex(sub)), seteq(exits,Xs(sub))))
# KeyError obligation: graph[inside] with inside in sub
check("no KeyError", hy, dom[inside])
