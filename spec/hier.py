"""Abstract views and predicates over a (restructured) SCFG hierarchy — the spec
vocabulary of DESIGN section 3.  Plain Python, used by the bounded stand-in E2.

All predicates raise Bad((kind, ...details)) on the first failure."""
from __future__ import annotations
import os
import sys

REPO = os.environ.get('VERIF_REPO', '/repo')
if REPO not in sys.path:
    sys.path.insert(0, REPO)

from numba_scfg.core.datastructures.basic_block import (  # noqa: E402
    BasicBlock, RegionBlock, SyntheticBlock, SyntheticAssignment, SyntheticBranch)


class Bad(Exception):
    @property
    def kind(self):
        return self.args[0][0]


def fwd(b):
    """forward targets: _jump_targets minus declared back edges (order kept)."""
    return tuple(t for t in b._jump_targets if t not in b.backedges)


# ------------------------------------------------------------------ index / resolve
class Index:
    """name -> (block, level SCFG, enclosing region blocks outermost..innermost)."""

    def __init__(self, scfg):
        self.top = scfg
        self.tab = {}
        self.dups = []
        self._rec(scfg, ())

    def _rec(self, s, regions):
        for k, b in s.graph.items():
            if k in self.tab:
                self.dups.append(k)
                continue
            self.tab[k] = (b, s, regions)
            if isinstance(b, RegionBlock):
                if b.subregion is None:
                    raise Bad(('region-without-subregion', k))
                self._rec(b.subregion, regions + (b,))

    def levels(self):
        """yield (region block or None for the top level, level scfg)."""
        yield None, self.top
        for k, (b, s, regions) in list(self.tab.items()):
            if isinstance(b, RegionBlock):
                yield b, b.subregion

    def level_chain(self, name):
        b, lvl, regions = self.tab[name]
        chain = [lvl]
        for i in range(len(regions) - 1, -1, -1):
            outer = self.tab[regions[i].name][1]
            chain.append(outer)
        return chain

    def lookup(self, frm, name):
        """the block or region `name` denotes when used as a target inside the level of `frm`."""
        for lvl in self.level_chain(frm):
            if name in lvl.graph:
                return lvl.graph[name]
        raise Bad(('dangling', frm, name))

    def leaf(self, blk):
        steps = 0
        while isinstance(blk, RegionBlock):
            steps += 1
            if steps > 1000:
                raise Bad(('region-header-cycle', blk.name))
            if blk.header not in blk.subregion.graph:
                raise Bad(('header-not-inside', blk.name, blk.header))
            blk = blk.subregion.graph[blk.header]
        return blk

    def resolve(self, frm, name):
        return self.leaf(self.lookup(frm, name)).name


def entry_of(g0):
    heads = [k for k in g0 if not any(k in v for v in g0.values())]
    if len(heads) != 1:
        raise ValueError('input graph has %d entries' % len(heads))
    return heads[0]


# ------------------------------------------------------------------ walkers
class W1:
    """Walk by name: follow every block's own jump targets, resolved by scope."""
    name = 'W1'

    def __init__(self, scfg):
        self.ix = Index(scfg)
        if self.ix.dups:
            raise Bad(('dupname', self.ix.dups[0]))

    def start(self):
        top = self.ix.top
        h = top.find_head()
        return self.ix.leaf(top.graph[h]).name

    def block(self, st):
        return self.ix.tab[st][0]

    def goto(self, st, target):
        return self.ix.resolve(st, target)


class W2:
    """Walk region by region: enter a region at its declared header; leave it only from
    its declared exiting block, continuing at the region's own targets at the same position."""
    name = 'W2'

    def __init__(self, scfg):
        self.ix = Index(scfg)
        if self.ix.dups:
            raise Bad(('dupname', self.ix.dups[0]))
        self.top = scfg

    def _enter(self, stack, lvl, name):
        blk = lvl.graph[name]
        steps = 0
        while isinstance(blk, RegionBlock):
            steps += 1
            if steps > 1000:
                raise Bad(('region-header-cycle', blk.name))
            stack = stack + (blk.name,)
            lvl = blk.subregion
            if blk.header not in lvl.graph:
                raise Bad(('w2-header-not-inside', blk.name, blk.header))
            blk = lvl.graph[blk.header]
        return (stack, blk.name)

    def start(self):
        return self._enter((), self.top, self.top.find_head())

    def block(self, st):
        return self.ix.tab[st[1]][0]

    def _level(self, stack):
        return self.ix.tab[stack[-1]][0].subregion if stack else self.top

    def goto(self, st, target):
        stack, cur = st
        src = self.ix.tab[cur][0]
        while True:
            lvl = self._level(stack)
            if target in lvl.graph:
                return self._enter(stack, lvl, target)
            if not stack:
                raise Bad(('w2-dangling', cur, target))
            region = self.ix.tab[stack[-1]][0]
            if region.exiting != src.name:
                raise Bad(('w2-leaves-not-from-exiting', region.name, src.name, target))
            out = fwd(src)
            if target not in out:
                # a declared back edge of the exiting block: the name is looked up further out unchanged
                src = region
                stack = stack[:-1]
                continue
            pos = out.index(target)
            rout = fwd(region)
            if pos >= len(rout):
                raise Bad(('w2-region-arity', region.name, out, rout))
            target = rout[pos]
            src = region
            stack = stack[:-1]


def run_synthetic(w, st, env, consumed):
    """From state st (at a block), pass through synthetic blocks steered by control
    variables until an original block or the end is reached.  Returns (state|None, env, consumed)."""
    steps = 0
    while True:
        steps += 1
        if steps > 5000:
            raise Bad(('synthetic-cycle', st))
        b = w.block(st)
        if not isinstance(b, SyntheticBlock):
            return st, env, consumed
        if isinstance(b, SyntheticAssignment):
            env = dict(env)
            consumed = dict(consumed)
            for var, val in b.variable_assignment.items():
                env[var] = val
                consumed[var] = frozenset()
        if isinstance(b, SyntheticBranch):
            if b.variable not in env:
                raise Bad(('ctrl-unassigned', b.name, b.variable))
            if b.name in consumed.get(b.variable, frozenset()):
                raise Bad(('ctrl-stale', b.name, b.variable))
            consumed = dict(consumed)
            consumed[b.variable] = consumed.get(b.variable, frozenset()) | {b.name}
            v = env[b.variable]
            if v not in b.branch_value_table:
                raise Bad(('ctrl-range', b.name, b.variable, v))
            nxt = b.branch_value_table[v]
            if nxt not in b._jump_targets:
                raise Bad(('table-not-target', b.name, nxt))
            st = w.goto(st, nxt)
            continue
        if len(b._jump_targets) == 0:
            return None, env, consumed
        if len(b._jump_targets) > 1:
            raise Bad(('unsteered', b.name))
        st = w.goto(st, b._jump_targets[0])


def path_equiv(g0, scfg, walker_cls):
    """Exhaustive exploration of the product (original block, walker state, control valuation).
    Returns the number of product states explored."""
    w = walker_cls(scfg)
    e = entry_of(g0)
    st0 = w.start()
    st0, env0, cons0 = run_synthetic(w, st0, {}, {})
    if st0 is None or w.block(st0).name != e:
        raise Bad(('entry', None if st0 is None else w.block(st0).name, e))

    def key(st, env, cons):
        return (st, tuple(sorted(env.items())), tuple(sorted((k, tuple(sorted(v))) for k, v in cons.items())))
    seen = set()
    todo = [(st0, env0, cons0)]
    while todo:
        st, env, cons = todo.pop()
        k = key(st, env, cons)
        if k in seen:
            continue
        seen.add(k)
        if len(seen) > 200000:
            raise Bad(('product-too-large',))
        b = w.block(st)
        cur = b.name
        if cur not in g0:
            raise Bad(('non-original-nonsynthetic', cur))
        want = g0[cur]
        if len(want) == 0:
            if len(b._jump_targets) > 1:
                raise Bad(('arity', cur, want, b._jump_targets))
            if len(b._jump_targets) == 1:
                nxt, _, _ = run_synthetic(w, w.goto(st, b._jump_targets[0]), env, cons)
                if nxt is not None:
                    raise Bad(('exit-continues', cur, w.block(nxt).name))
            continue
        if len(b._jump_targets) != len(want):
            raise Bad(('arity', cur, want, b._jump_targets))
        for i, wt in enumerate(want):
            nxt, env2, cons2 = run_synthetic(w, w.goto(st, b._jump_targets[i]), env, cons)
            got = None if nxt is None else w.block(nxt).name
            if got != wt:
                raise Bad(('wrong-succ', cur, i, wt, got))
            todo.append((nxt, env2, cons2))
    return len(seen)


# ------------------------------------------------------------------ C04 well-formedness
def wf(scfg):
    ix = Index(scfg)
    if ix.dups:
        raise Bad(('dupname', ix.dups[0]))
    for name, (b, lvl, regions) in ix.tab.items():
        if b.name != name:
            raise Bad(('key-name-mismatch', name, b.name))
        for t in tuple(b._jump_targets) + tuple(b.backedges):
            ix.lookup(name, t)          # dangling -> Bad
        for t in b.backedges:
            if t not in b._jump_targets:
                raise Bad(('backedge-not-target', name, t))
    for region, lvl in ix.levels():
        if region is None:
            continue
        sub = lvl.graph
        if region.header not in sub:
            raise Bad(('header-not-inside', region.name, region.header))
        if region.exiting not in sub:
            raise Bad(('exiting-not-inside', region.name, region.exiting))
        # control leaves only from the exiting block
        for k, x in sub.items():
            leaving = [t for t in x._jump_targets if t not in sub]
            if leaving and k != region.exiting:
                raise Bad(('leaves-not-from-exiting', region.name, k, tuple(leaving)))
        # enters only at the header: references from this level's blocks are by scope; a block of the
        # containing level may only name the region itself (checked by scoping).  Inside the region,
        # nobody but back edges may target the header from ... (no constraint).  What must hold: no
        # block outside the subtree names an inner block -- guaranteed by `lookup` scoping above.
        ex = sub[region.exiting]
        out = tuple(t for t in fwd(ex) if t not in sub)
        if fwd(region) != out:
            raise Bad(('region-targets-differ-from-exiting', region.name, fwd(region), ex.name, out))
        # recorded parent
        b, plvl, regions = ix.tab[region.name]
        if regions:
            cont = regions[-1]
            pr = region.parent_region
            if pr is None or pr.name != cont.name or pr.subregion is not cont.subregion:
                raise Bad(('parent-mismatch', region.name, getattr(pr, 'name', None), cont.name))
        else:
            pr = region.parent_region
            if pr is None or pr.subregion is not ix.top:
                raise Bad(('parent-mismatch', region.name, getattr(pr, 'name', None), '<top>'))
        if lvl.region is None or lvl.region.name != region.name:
            raise Bad(('subregion-region-mismatch', region.name, getattr(lvl.region, 'name', None)))
    return len(ix.tab)


# ------------------------------------------------------------------ C03 structuredness
def exiting_leaf(region):
    b = region
    steps = 0
    while isinstance(b, RegionBlock):
        steps += 1
        if steps > 1000 or b.subregion is None or b.exiting not in b.subregion.graph:
            return None
        b = b.subregion.graph[b.exiting]
    return b


def structured(scfg):
    ix = Index(scfg)
    for region, lvl in ix.levels():
        g = lvl.graph
        # acyclic without declared back edges
        succ = {k: [t for t in fwd(b) if t in g] for k, b in g.items()}
        color = {}

        def dfs(u):
            stack = [(u, iter(succ[u]))]
            color[u] = 1
            while stack:
                n, it = stack[-1]
                for v in it:
                    if color.get(v, 0) == 1:
                        raise Bad(('cycle-without-backedge', region.name if region else '<top>', n, v))
                    if color.get(v, 0) == 0:
                        color[v] = 1
                        stack.append((v, iter(succ[v])))
                        break
                else:
                    color[n] = 2
                    stack.pop()
        for k in g:
            if color.get(k, 0) == 0:
                dfs(k)
        # back edges only on the exiting latch of a loop region (the innermost block reached through
        # the chain of declared exiting blocks), to that region's header
        for k, b in g.items():
            if b.backedges and not isinstance(b, RegionBlock):
                ok = False
                for enc in ix.tab[k][2][::-1]:
                    if enc.kind == 'loop':
                        ok = exiting_leaf(enc) is b and tuple(b.backedges) == (enc.header,)
                        break
                if not ok:
                    raise Bad(('stray-backedge', region.name if region else '<top>', k, tuple(b.backedges)))
            if b.backedges and isinstance(b, RegionBlock):
                raise Bad(('backedge-on-region', region.name if region else '<top>', k, tuple(b.backedges)))
        if region is not None and region.kind == 'loop':
            latch = exiting_leaf(region)
            if latch is None or tuple(latch.backedges) != (region.header,):
                raise Bad(('loop-without-latch-backedge', region.name))
        # branching
        for k, b in g.items():
            out = fwd(b)
            if len(out) <= 1:
                continue
            if isinstance(b, RegionBlock) and b.kind == 'head':
                if len(set(out)) != len(out):
                    raise Bad(('head-duplicate-branches', k, out))
                tails = set()
                for t in out:
                    br = g.get(t)
                    if not (isinstance(br, RegionBlock) and br.kind == 'branch'):
                        raise Bad(('head-successor-not-branch', k, t))
                    bo = fwd(br)
                    if len(bo) != 1:
                        raise Bad(('branch-continuations', t, bo))
                    tails.add(bo[0])
                if len(tails) != 1:
                    raise Bad(('branches-different-tails', k, tuple(sorted(tails))))
                tl = g.get(next(iter(tails)))
                if not (isinstance(tl, RegionBlock) and tl.kind == 'tail'):
                    raise Bad(('tail-not-tail-region', k, next(iter(tails))))
            else:
                if region is None or region.exiting != k:
                    raise Bad(('branching-not-head-exiting', region.name if region else '<top>', k, out))
    return True


# ------------------------------------------------------------------ C05 conservation
def payload(b):
    d = {}
    for f in ('begin', 'end', 'tree'):
        if hasattr(b, f):
            d[f] = getattr(b, f)
    return d


def conserved(orig_blocks, scfg, joined=False):
    """orig_blocks: name -> original block object (before any stage)."""
    ix = Index(scfg)
    if ix.dups:
        raise Bad(('dupname', ix.dups[0]))
    for name, ob in orig_blocks.items():
        if name not in ix.tab:
            raise Bad(('lost', name))
        nb = ix.tab[name][0]
        if type(nb) is not type(ob):
            raise Bad(('class-changed', name, type(ob).__name__, type(nb).__name__))
        po, pn = payload(ob), payload(nb)
        for f in po:
            if f == 'tree':
                if pn[f] is not po[f]:
                    raise Bad(('payload-changed', name, f))
            elif pn[f] != po[f]:
                raise Bad(('payload-changed', name, f))
        oj, nj = ob._jump_targets, nb._jump_targets
        if len(oj) == 0 and len(nj) == 1 and joined:
            if nj[0] in orig_blocks:
                raise Bad(('exit-edge-to-original', name, nj[0]))
            continue
        if len(oj) != len(nj):
            raise Bad(('arity-changed', name, oj, nj))
        for a, b in zip(oj, nj):
            if a != b and b in orig_blocks:
                raise Bad(('retargeted-to-original', name, a, b))
    for name, (b, lvl, regions) in ix.tab.items():
        if name not in orig_blocks and not isinstance(b, (SyntheticBlock, RegionBlock)):
            raise Bad(('added-non-synthetic', name, type(b).__name__))
    return True


# ------------------------------------------------------------------ C06 static half
def tables_ok(scfg):
    ix = Index(scfg)
    n = 0
    for name, (b, lvl, regions) in ix.tab.items():
        if isinstance(b, SyntheticBranch):
            n += 1
            vals = set(b.branch_value_table.values())
            if not vals <= set(b._jump_targets):
                raise Bad(('table-entry-not-successor', name, sorted(vals - set(b._jump_targets))))
            if not set(b._jump_targets) <= vals:
                raise Bad(('successor-without-entry', name, sorted(set(b._jump_targets) - vals)))
            if not b.variable:
                raise Bad(('branch-without-variable', name))
    return n


# ------------------------------------------------------------------ C16 iteration / view
def iter_ok(scfg):
    ix = Index(scfg)
    items = [k for k, _ in scfg]
    if len(items) != len(set(items)):
        raise Bad(('iter-duplicate', [k for k in items if items.count(k) > 1][0]))
    if set(items) != set(ix.tab):
        missing = sorted(set(ix.tab) - set(items))
        extra = sorted(set(items) - set(ix.tab))
        raise Bad(('iter-incomplete', tuple(missing), tuple(extra)))
    if items and items[0] != scfg.find_head():
        raise Bad(('iter-head-not-first', items[0]))
    return len(items)


def view_ok(scfg):
    ix = Index(scfg)
    n = 0
    for region, lvl in ix.levels():
        items = list(lvl.concealed_region_view)
        keys = list(lvl.graph)
        who = region.name if region else '<top>'
        if len(items) != len(set(items)):
            raise Bad(('view-duplicate', who))
        if set(items) != set(keys):
            raise Bad(('view-incomplete', who, tuple(sorted(set(keys) - set(items))), tuple(sorted(set(items) - set(keys)))))
        head = lvl.find_head()
        if items[0] != head:
            raise Bad(('view-head-not-first', who, items[0], head))
        pos = {k: i for i, k in enumerate(items)}
        preds = {k: set() for k in keys}
        for k, b in lvl.graph.items():
            for t in fwd(b):
                if t in preds:
                    preds[t].add(k)
        for k in items[1:]:
            if not any(pos[p] < pos[k] for p in preds[k]):
                raise Bad(('view-before-predecessors', who, k))
        n += len(items)
    return n


# ------------------------------------------------------------------ C12 canonical dump
def canon(scfg):
    out = []

    def rec(s, depth):
        for k, b in s.graph.items():
            rec_ = [depth, k, type(b).__name__, tuple(b._jump_targets), tuple(b.backedges)]
            if isinstance(b, SyntheticBranch):
                rec_ += [b.variable, tuple(b.branch_value_table.items())]
            if isinstance(b, SyntheticAssignment):
                rec_ += [tuple(b.variable_assignment.items())]
            if isinstance(b, RegionBlock):
                rec_ += [b.kind, b.header, b.exiting, b.parent_region.name if b.parent_region else None]
            for f in ('begin', 'end'):
                if hasattr(b, f):
                    rec_.append(getattr(b, f))
            out.append(tuple(rec_))
            if isinstance(b, RegionBlock):
                rec(b.subregion, depth + 1)
    rec(scfg, 0)
    return tuple(out) + (tuple(sorted(scfg.name_gen.kinds.items())),)
