#!/bin/sh
# like run_seeded.sh, but every seeded change is applied in its own scratch worktree of /repo under /tmp/sw (removed afterwards)
# and the quick check runs against it through VERIF_REPO; N changes at a time (default 6).  The evidence and replay files the
# runs write are those of mutated trees: restore them afterwards (git checkout evidence replays; ./vcheck all --tier quick).
cd /verif
N=${N:-6}
list="$@"; [ -z "$list" ] && list=$(ls seeded)
[ "$1" = "--one" ] && list=""
mkdir -p /tmp/sw
one() {
  id=$1; d=/verif/seeded/$id; prop=${id%%-*}; w=/tmp/sw/$id
  git -C /repo worktree add --detach -f "$w" HEAD >/dev/null 2>&1 || { echo "$id: worktree failed"; return; }
  if ! git -C "$w" apply "$d/patch.diff" 2>/dev/null; then echo "$id: patch does not apply"; git -C /repo worktree remove --force "$w"; return; fi
  out=$(VERIF_REPO="$w" ./vcheck "$prop" --tier quick 2>&1)
  git -C /repo worktree remove --force "$w"
  if echo "$out" | grep -q "^VIOLATION property=$prop"; then echo "$id: CAUGHT ($(echo "$out" | grep -c '^VIOLATION') violation lines, $(echo "$out" | grep '^VIOLATION' | grep -vc 'no-failing-input-found') with a failing input) $(echo "$out" | grep '^VIOLATION' | head -2 | sed 's/.*replay=//' | tr '\n' ' ' | cut -c1-150)";
  elif echo "$out" | grep -q "CHECKER-ERROR"; then echo "$id: CHECKER-ERROR"; echo "$out" | grep CHECKER-ERROR | head -2 | cut -c1-200;
  else echo "$id: MISSED"; echo "$out" | grep UNDECIDED | head -3 | cut -c1-200; fi
}
if [ "$1" = "--one" ]; then one "$2"; exit 0; fi
printf '%s\n' $list | xargs -P "$N" -I{} sh "$0" --one {}
git -C /repo worktree prune
