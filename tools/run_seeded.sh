#!/bin/sh
# applies every seeded change (or those given as arguments) in turn and runs the quick check of its property; prints CAUGHT / MISSED
cd /verif
list="$@"; [ -z "$list" ] && list=$(ls seeded)
for id in $list; do
  d=seeded/$id; prop=${id%%-*}
  git -C /repo diff --quiet || { echo "/repo dirty"; exit 2; }
  if ! git -C /repo apply "/verif/$d/patch.diff" 2>/dev/null; then echo "$id: patch does not apply"; continue; fi
  out=$(./vcheck "$prop" --tier quick 2>&1)
  git -C /repo checkout -- .
  if echo "$out" | grep -q "^VIOLATION property=$prop"; then echo "$id: CAUGHT ($(echo "$out" | grep -c '^VIOLATION') violation lines) $(echo "$out" | grep '^VIOLATION' | head -2 | sed 's/.*replay=//' | tr '\n' ' ' | cut -c1-150)";
  elif echo "$out" | grep -q "CHECKER-ERROR"; then echo "$id: CHECKER-ERROR"; echo "$out" | grep CHECKER-ERROR | head -2 | cut -c1-200;
  else echo "$id: MISSED"; echo "$out" | grep UNDECIDED | head -3 | cut -c1-200; fi
done
