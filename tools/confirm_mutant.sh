#!/bin/sh
# usage: tools/confirm_mutant.sh <worktree> <patch> <demo> <meta> <dest-id> "<checks that catch it>"
wt="$1"; patch="$2"; demo="$3"; meta="$4"; dest="/verif/seeded/$5"; caught="$6"
cd "$wt" || exit 2
git checkout -q -- . ; git apply "$patch" || { echo "APPLY FAILED"; exit 2; }
t=$(PYTHONPATH="$wt" /venv/bin/python -m pytest -q -p no:cacheprovider numba_scfg/tests 2>&1 | tail -1)
PYTHONPATH="$wt" /venv/bin/python "$demo" >/tmp/demo_with.out 2>&1; with=$?
git checkout -q -- .
PYTHONPATH="$wt" /venv/bin/python "$demo" >/tmp/demo_without.out 2>&1; without=$?
echo "$5: tests='$t' demo_with_change_exit=$with demo_without_exit=$without"
case "$t" in *"82 passed"*) ;; *) echo "  TESTS DO NOT PASS - not kept"; exit 1;; esac
[ "$with" != "0" ] && [ "$without" = "0" ] || { echo "  demo does not discriminate - not kept"; exit 1; }
mkdir -p "$dest"; cp "$patch" "$dest/patch.diff"; cp "$demo" "$dest/demo.py"
python3 - "$meta" "$dest/meta.json" "$t" "$with" "$without" "$caught" <<'PY'
import json, sys
src, dst, t, w, wo, caught = sys.argv[1:7]
try: m = json.load(open(src))
except Exception: m = {}
m['confirmed'] = {'tests_with_change': t, 'demo_exit_with_change': int(w), 'demo_exit_without_change': int(wo),
                  'how': 'tools/confirm_mutant.sh in the scratch worktree (PYTHONPATH=<worktree> /venv/bin/python)'}
m['caught_by'] = caught
json.dump(m, open(dst, 'w'), indent=1)
PY
echo "  kept in $dest"
