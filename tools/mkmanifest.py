#!/usr/bin/env python3
"""Regenerates /verif/MANIFEST.json from the table below (kept valid at all times)."""
import json, os, sys
HERE = os.path.dirname(os.path.dirname(os.path.abspath(__file__)))

LEVEL_OTHER = 'other'
P = {}   # id -> dict(text, note, technique, design_ref, category)

def claim(pid, text, note, technique, design_ref, category=LEVEL_OTHER):
    P[pid] = dict(text=text, note=note, technique=technique, design_ref=design_ref, category=category)

PROOF_PLUS_BOUNDED = ('contract-based deductive verification of the real functions (pyvc: VCs generated from /repo source every run, '
                      'discharged by z3) + the same contracts evaluated at run time as bounded stand-in')
TB = ('trusted: z3, our VC generator pyvc and its encoding of Python (DESIGN 2.2, 6, 11); value-mode callers do not check the heap preconditions of '
      'SCFG._sync_exiting (proved separately in heap mode); tier-B functions (loop_restructure_helper, restructure_loop/branch, extract_region below the top level, '
      'scc, _imm_doms, SCFGIO, ast_transforms, rendering) are checked only within the stated bounds')

claim('C01', 'Mixed: the arc-preservation facts of the edit primitives (insert_block, SyntheticBranch.replace_jump_targets, jump_targets) are proved for all '
      'inputs; the whole-pipeline claim path_equiv(original, result) is decided per instance by exhaustive product exploration (W1 by name, W2 by region) '
      'on all closed CFGs up to the node bound after every stage prefix (bounded, never counted as proved).', TB, PROOF_PLUS_BOUNDED, '5.C01')
claim('C02', 'Mixed: every no-raise obligation (assert, subscript, .index, next(iter)) of the contracted functions is proved, in particular the value-table '
      'maintenance under its callers\' precondition; acceptance of every closed CFG by the tier-B drivers is checked exhaustively up to the node bound and on random '
      'graphs to 18 nodes with a CPU-time limit (bounded).', TB + '; termination of tier-B loops is observed, not proved', PROOF_PLUS_BOUNDED, '5.C02')
claim('C03', 'Bounded at property level: structured(H) (acyclic per level without declared back edges, loop regions with a single latch back edge, '
      'head/branch/tail discipline) evaluated on every fully restructured result of the enumeration; proved facts it rests on: declare_backedge, the query contracts and the '
      'region-discovery helpers find_head_blocks (chain from the head), find_branch_regions (empty arm iff another arm reaches it, members = dominated by the arm and not by the end, '
      'modular over _doms and is_reachable_dfs), find_tail_blocks, _doms/_post_doms (= path-based dominance).',
      TB, 'property-level contract checked on the enumerated scope; supporting function contracts proved by pyvc/z3', '5.C03')
claim('C04', 'Mixed: key/frame invariants of the edit primitives proved (value mode); SCFG._sync_exiting proved in heap mode for every nesting depth (every sub-graph keeps its keys, '
      'only jump targets and the value tables that follow them change, the exiting block of the argument is re-targeted position by position, arity of non-leaf levels kept, no exception), '
      'update_exiting likewise (recursive: header renamed along the whole exiting chain), the hierarchy views of insert_block, its four typed wrappers, join_tails_and_exits and '
      'insert_block_and_control_blocks (the exiting block of every region predecessor / tail is re-targeted with it), and extract_region at the top level (header and exiting inside the region, '
      'every outside arc enters at the header, the region\'s targets are its exiting block\'s, the sub-graph holds exactly the region\'s blocks, entries that are regions re-targeted down their chain); '
      'WF(H) evaluated after every stage on the enumerated scope and the hierarchy clause at every edit call incl. region predecessors (bounded).',
      TB + '; back pointers (parent_region, SCFG.region) are not modelled by the proofs: bounded clause parent-mismatch; allocation of a sub-graph identity assumed fresh (consistency canary on every run); '
      'join_returns and nested extract_region calls are bounded only', PROOF_PLUS_BOUNDED, '5.C04')
claim('C05', 'Mixed: frames of the edit primitives proved (replace = functional update keeping class tag and every other field; untouched blocks identical); extract_region at the top level proved '
      '(the sub-graph holds exactly the region\'s blocks, each the same value; entries keep arity and order with the header renamed to the region; every other block identical); '
      'conserved(original, result) evaluated after every stage with plain, bytecode and AST payloads (bounded).', TB, PROOF_PLUS_BOUNDED, '5.C05')
claim('C06', 'Mixed: the table invariant (every entry names a successor, every successor has an entry, keys preserved under position-wise renaming) is proved for '
      'SyntheticBranch.replace_jump_targets; assigned-before-use and in-range are decided per instance on every reachable (block, valuation) of the product '
      'exploration (bounded).', TB, PROOF_PLUS_BOUNDED, '5.C06')
SRC_NOTE = ('CPython is the oracle; programs come from a seeded grammar-based generator plus hand-written ones, decision paths are enumerated per program; findings R8, R9a/b, '
            'R14-R17 (known_findings.json) are identified by syntactic / front-end-CFG region predicates and are not re-reported')
claim('C07', 'Bounded only (exploration): compiler correctness of source -> CFG -> restructured CFG -> source is not decidable by any contract within reach; the property-level contract '
      '(same result or exception type and same sequence of external calls, or NotImplementedError) is evaluated on every enumerated decision path of every generated program.',
      SRC_NOTE, 'property-level contract evaluated by differential execution against CPython over enumerated decision paths (bounded stand-in; no proof part)', '5.C07', category='exploration')
claim('C08', 'Bounded at property level (exploration): a CFG interpreter written from the property statement is compared with CPython on every enumerated decision path of every generated program, '
      'with operands that log and raise. Proved leaf facts it rests on (pyvc/z3, ast nodes as opaque objects with an uninterpreted isinstance relation): the sealing of a writable block - '
      'WritableASTBlock.set_jump_targets / is_instruction / is_return / is_break / is_continue / seal_outside_loop / seal_inside_loop (continue -> loop head, break -> loop exit, return keeps its '
      'targets, anything else falls through to the given index).', SRC_NOTE + '; the recursive handlers of AST2SCFGTransformer and the pruning passes of ASTCFG (objects mutated through aliases in a dict) are outside the verifier\'s subset', 'property-level contract evaluated by differential execution (CFG interpreter vs CPython) over enumerated decision paths', '5.C08',
      category='exploration')
claim('C09', 'Mixed, mostly proved: utils (classification lookups, offset arithmetic), FlowInfo._add_jump_inst, FlowInfo.from_bytecode, FlowInfo.build_basicblocks '
      '(contiguous ranges in offset order, names in offset order, fall-through / jump / return successors, no KeyError), PythonBytecodeBlock.get_instructions '
      '(incl. termination) and SCFG.bcmap_from_bytecode are proved for all instruction streams satisfying WFdis; the opcode classification is decided completely for the '
      'running interpreter (finite enumeration against dis.hasjrel/hasjabs and opcode._inline_cache_entries); the composition on real code objects is checked on a '
      'standard-library corpus against an independent ground truth (bounded).',
      TB + '; WFdis (offsets increasing and even, code ends with a jump or return, jump targets are instruction offsets) and A-uncond assumed about dis; '
      'only Python 3.12 is installed', 'finite case split over the interpreter\'s opcode table + ' + PROOF_PLUS_BOUNDED, '5.C09')
claim('C10', 'Bounded only (exploration): static census of the regenerated tree against the restructured graph (every statement object once, every test once as an If.test, '
      'synthetic assignments as a multiset, compiles, reserved names only) on every accepted generated program.', SRC_NOTE,
      'property-level contract evaluated as a static census on the enumerated scope', '5.C10', category='exploration')
claim('C11', 'Decided by a complete finite case split for the running interpreter: the dispatcher\'s isinstance chain (read from the current source) evaluated against the '
      'real class lattice for every subclass of ast.stmt, plus unconditional structural descent of every compound handler; the placement matrix and non-function '
      'inputs are executed (bounded).', 'the structural induction over the tree is stated, not mechanised; dispatch must remain an isinstance chain (otherwise the check '
      'reports the structure obligation); ast.parse/inspect.getsource trusted', 'finite case split over every ast.stmt class (E3) + placement matrix executed', '5.C11')
claim('C12', 'Mixed: functional postconditions of the order-sensitive leaf functions (sorted results, exact generated names) are proved with every set/dict loop visiting '
      'elements in arbitrary order, which makes them hash-seed independent for all inputs; the cross-process claim for the whole pipeline is compared over several '
      'PYTHONHASHSEED values in subprocesses on enumerated and random inputs (bounded).', TB + '; sorted() anchors inside tier-B functions are covered only by the bounded comparison',
      PROOF_PLUS_BOUNDED + ' across hash seeds', '5.C12')
claim('C13', 'Mixed, mostly proved: find_head, find_headers_and_entries (top-level graphs), find_exiting_and_exits, is_reachable_dfs, exclude_blocks, '
      'jump_targets, is_exiting are proved equal to their definitions for all graphs (incl. external targets, duplicates, back edges); _doms / _post_doms are proved to '
      'return exactly path-based dominance on the in-graph edge relation (tables = edge relation and its converse, entries = blocks without in-graph predecessors / successors; '
      '_find_dominators_internal: assertion never fires, exit state solves the dominator equations, contains every dominator and only dominators); compute_scc/scc and '
      '_imm_doms are compared with brute-force definitions on all small digraphs (bounded), as is everything proved.',
      TB + '; graph-theory axioms given to the solver, each also evaluated against the brute-force definition at run time: R-ind (closure principle of reachability), '
      'D-entry / D-step / D-gfp (consequences of path-based dominance); termination of the dominator fix point observed, not proved; find_headers_and_entries proved for '
      'region kind "meta" only', PROOF_PLUS_BOUNDED, '5.C13')
claim('C14', 'Mixed, mostly proved: all value-level clauses of insert_block and its four typed wrappers, insert_block_and_control_blocks (each re-routed arc gets its own '
      'assignment block whose constant the new head maps back to the arc\'s original target), join_returns, join_tails_and_exits, add_block, remove_blocks and '
      'SyntheticBranch.replace_jump_targets are discharged for all inputs (exact re-routing, order of remaining successors, positional replacement, frame); '
      'SCFG._sync_exiting (re-targeting of the exiting chain of a region predecessor) is proved in heap mode for every nesting depth, and so are the hierarchy views of insert_block, '
      'its four typed wrappers, insert_block_and_control_blocks and join_tails_and_exits (every region predecessor\'s / tail\'s exiting block is re-targeted with it, position by position; a caller uses the '
      'callee\'s view, whose extra preconditions become call-site obligations); join_returns\' hierarchy clause and edit sequences are bounded.',
      TB + '; R3 (predecessor with a declared back edge) and R13 are recorded findings, proved on their complement',
      PROOF_PLUS_BOUNDED, '5.C14')
claim('C15', 'Bounded + finite: registry coverage and a per-class field round trip are decided completely over the block classes (E3); dictionary/YAML round trips and '
      'write-read-write-read chains are executed on every enumerated closed CFG at every stage prefix and on bytecode graphs (bounded). to_dict/from_dict are tier B.',
      'yaml trusted; no deductive contract on SCFGIO (work-list over a heterogeneous hierarchy); R4b (PythonASTBlock not serialisable) is a recorded finding',
      'finite case split over block classes (E3) + round-trip contract evaluated on the enumerated scope', '5.C15')
claim('C16', 'Mixed: ConcealedRegionView.region_view_iterator is proved for all levels whose regions mirror their exiting blocks (the C04 clause, as precondition): it yields '
      'exactly the blocks and regions of the level reachable from the start, each once (closure principle R-ind); SCFG.__iter__ is proved modularly (the nested iteration of a '
      'region\'s sub-graph is used through this same contract; names unique across the hierarchy as precondition): every reachable block of the level once, every region followed by its '
      'hierarchy; bounded: list(scfg) and the view of every level of every enumerated result, and of all small flat digraphs with duplicate targets, compared with the hierarchy '
      '(exactly once, head first, after a predecessor).', TB,
      PROOF_PLUS_BOUNDED, '5.C16')

NOT_YET = 'check not built yet in this session (see DESIGN.md section 9 for the order of work)'
claim('C17', 'Bounded (claimed as such): the DOT source of every enumerated graph at every stage prefix, of three bytecode flows and of the graph the source front end builds for every generated '
      'program (before and after every restructuring stage that succeeds) is parsed and compared with the hierarchy (nodes, nested clusters, '
      'solid/dashed edges to innermost headers, labels); arm coverage of render_block over all block classes is a complete finite check.',
      'graphviz Python layer trusted; no deductive contract on rendering.py (external object, string formatting); R15 / R16 (front-end graphs without a unique entry / with a dangling target, '
      'which cannot be drawn) are recorded findings identified by front-end-CFG predicates',
      'finite arm-coverage check (E3) + rendering contract evaluated on the enumerated scope', '5.C17', category='exploration')
claim('C18', 'Mixed: NameGenerator.new_block_name/new_region_name/new_var_name are proved to return name(kind, counter) and advance exactly that counter; injectivity '
      'of each name shape and pairwise disjointness of the shapes (read from the source) are discharged by cvc5 on strings; histories of requests on a shared generator '
      'and every name handed out during real pipeline runs are checked exhaustively up to the bounds (bounded); extract_region (top level) is proved to take exactly one region name of the '
      'requested kind and one "meta" name for the new sub-graph from the shared generator, and to store the region under a name that was not a key.',
      TB + '; A-str (str of a non-negative int is an injective digit string) assumed; R11 (input names inside the generator namespace) is a recorded finding',
      PROOF_PLUS_BOUNDED + '; string lemmas by cvc5', '5.C18')
ALL = ['C%02d' % i for i in range(1, 19)]

def main():
    checks = []
    for pid in sorted(P):
        d = P[pid]
        checks.append({
            'property_id': pid,
            'quick_cmd': './vcheck %s --tier quick' % pid,
            'thorough_cmd': './vcheck %s --tier thorough' % pid,
            'evidence_file': 'evidence/%s.json' % pid,
            'replay_cmd_template': './vcheck replay {path}',
            'engine': 'pyvc+rtc',
            'level_claimed': {'category': d['category'], 'text': d['text'], 'design_ref': 'DESIGN.md ' + d['design_ref']},
            'level_note': d['note'],
            'technique': d['technique'],
        })
    extra = json.load(open(os.path.join(HERE, 'tools', 'not_applicable.json'))) if os.path.exists(os.path.join(HERE, 'tools', 'not_applicable.json')) else {}
    na = [{'property_id': pid, 'reason': extra.get(pid, NOT_YET)} for pid in ALL if pid not in P]
    m = {
        'version': 1,
        'setup_cmd': './setup.sh',
        'hooks': {
            'guard': 'NUMBA_SCFG_VERIF',
            'enable': 'no hook is needed: contracts are sidecar files, the verified text is extracted from /repo on every run, run-time wrappers patch attributes in the checker process only',
            'baseline_off_cmd': 'cd /repo && /venv/bin/python -m pytest -ra -q -p no:cacheprovider --timeout=900 --continue-on-collection-errors',
            'source_commits': [],
            'add_only': True,
        },
        'engines': [
            {'name': 'pyvc', 'path': 'pyvc/', 'serves_properties': sorted(P), 'kind_free_text': 'E1: VC generator (python ast -> z3), sidecar contracts in contracts/'},
            {'name': 'rtc', 'path': 'rtc/', 'serves_properties': sorted(P), 'kind_free_text': 'E2: the same contracts at run time on the real code over enumerated scopes (bounded stand-in)'},
            {'name': 'fin', 'path': 'fin/', 'serves_properties': [p for p in ('C09', 'C11') if p in P], 'kind_free_text': 'E3: complete enumeration of finite domains'},
        ],
        'checks': checks,
        'not_applicable': na,
        'notes': 'fix: commits in /repo are listed in known_findings.json (fixed entries). VERIF_REPO points the checks at another tree (self-test).',
    }
    with open(os.path.join(HERE, 'MANIFEST.json'), 'w') as fh:
        json.dump(m, fh, indent=1)
    print('MANIFEST.json: %d checks, %d not_applicable' % (len(checks), len(na)))

if __name__ == '__main__':
    main()
