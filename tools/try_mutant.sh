#!/bin/sh
# usage: tools/try_mutant.sh <patch.diff> <Cxx> [<Cyy> ...]   applies the patch to /repo, runs the quick checks, restores /repo
patch="$1"; shift
cd /repo || exit 2
git diff --quiet || { echo "/repo is dirty"; exit 2; }
git apply "$patch" || { echo "patch does not apply"; exit 2; }
cd /verif
for p in "$@"; do
  ./vcheck "$p" --tier quick 2>&1 | grep -E "VIOLATION|UNDECIDED|CHECKER-ERROR|tier=" | cut -c1-260
done
git -C /repo checkout -- .
git -C /repo status --short | head -3
