"""Named spec predicates (macros): pure expression texts expanded in place by the
VC generator and turned into Python functions for run-time checking."""

MACROS = {
    # SyntheticBranch class invariant (C06): every table entry names a successor,
    # every successor is named by an entry
    'table_ok': (['b'],
                 'all(b.branch_value_table[k] in b._jump_targets for k in b.branch_value_table)'
                 ' and all(any(b.branch_value_table[k] == t for k in b.branch_value_table) for t in b._jump_targets)'),
    # the value table of nb follows the re-targeting of ob: same keys; with equal lengths each entry follows its
    # target's position; otherwise (targets merged into one new successor) entries of kept targets are unchanged
    # and entries of removed targets name the new successor
    'renamed_table': (['ob', 'nb'],
                      'set(nb.branch_value_table) == set(ob.branch_value_table)'
                      ' and implies(len(nb._jump_targets) == len(ob._jump_targets),'
                      ' all(all(implies(ob.branch_value_table[k] == ob._jump_targets[i],'
                      ' nb.branch_value_table[k] == nb._jump_targets[i])'
                      ' for i in range(len(ob._jump_targets))) for k in ob.branch_value_table))'
                      ' and implies(len(nb._jump_targets) != len(ob._jump_targets),'
                      ' all((nb.branch_value_table[k] == ob.branch_value_table[k]) if ob.branch_value_table[k] in nb._jump_targets'
                      ' else (nb.branch_value_table[k] in nb._jump_targets and nb.branch_value_table[k] not in ob._jump_targets)'
                      ' for k in ob.branch_value_table))'),
    # shape of a re-targeting the value table can follow: same length, or exactly one new successor replacing
    # at least one removed target
    'retarget_shape': (['oj', 'nj'],
                       'len(nj) == len(oj) or (any(t not in oj for t in nj) and any(t not in nj for t in oj)'
                       ' and all(implies(a not in oj and b not in oj, a == b) for a in nj for b in nj))'),
    # ---- insert_block: nj is oj with the arcs into S re-routed through `new`
    'rr_sub': (['oj', 'nj', 'new', 'S'], 'all((t in oj and t not in S) or t == new for t in nj)'),
    'rr_kept': (['oj', 'nj', 'new', 'S'], 'all(t in nj for t in oj if t not in S)'),
    'rr_new': (['oj', 'nj', 'new', 'S'], '(new in nj) == any(t in S for t in oj)'),
    # order of the remaining targets: no inversion (with rr_kept and distinctness this is
    # "a before b in oj  <=>  a before b in nj"; the purely universal form is what the solver likes)
    'rr_order': (['oj', 'nj', 'new', 'S'],
                 'all(not (nj[x] == oj[j] and nj[y] == oj[i])'
                 ' for i in range(len(oj)) for j in range(i + 1, len(oj)) if oj[i] not in S and oj[j] not in S'
                 ' for x in range(len(nj)) for y in range(x + 1, len(nj)))'),
    'at_most_one_in': (['oj', 'S'],
                       'all(implies(oj[i] in S and oj[j] in S, i == j) for i in range(len(oj)) for j in range(len(oj)))'),
    'appended': (['oj', 'nj', 'x'], 'len(nj) == len(oj) + 1 and nj[len(oj)] == x and all(nj[i] == oj[i] for i in range(len(oj)))'),
    # blk is the assignment block `name` that sets `var` and continues to `target`
    'is_assign_to': (['blk', 'name', 'target', 'var'],
                     'type(blk) is SyntheticAssignment and blk.name == name and blk._jump_targets == (target,) and len(blk.backedges) == 0'
                     ' and var in blk.variable_assignment and all(w == var for w in blk.variable_assignment)'),
    'ib_plain': (['ob', 'nb'], 'implies(not isinstance(ob, SyntheticBranch), nb == replace(ob, _jump_targets=nb._jump_targets))'),
    'ib_branch': (['ob', 'nb'],
                  'implies(isinstance(ob, SyntheticBranch), nb == replace(ob, _jump_targets=nb._jump_targets,'
                  ' branch_value_table=nb.branch_value_table))'),
    'ib_branch_renamed': (['ob', 'nb'], 'implies(isinstance(ob, SyntheticBranch), renamed_table(ob, nb))'),
    'ib_branch_table': (['ob', 'nb'], 'implies(isinstance(ob, SyntheticBranch), table_ok(nb))'),
    # nb is ob up to its targets and back edges (and, for a branching block, the value table following the targets)
    'ue_plain': (['ob', 'nb'], 'implies(not isinstance(ob, SyntheticBranch),'
                               ' nb == replace(ob, _jump_targets=nb._jump_targets, backedges=nb.backedges))'),
    'ue_branch': (['ob', 'nb'], 'implies(isinstance(ob, SyntheticBranch), nb == replace(ob, _jump_targets=nb._jump_targets,'
                                ' backedges=nb.backedges, branch_value_table=nb.branch_value_table))'),
    'rr_pos': (['oj', 'nj', 'new', 'S'],
               'implies(at_most_one_in(oj, S), len(nj) == len(oj)'
               ' and all(nj[i] == (new if oj[i] in S else oj[i]) for i in range(len(oj))))'),
}


import ast as _ast


class TotalView:
    """read-only view of a collections.defaultdict(set) for contract evaluation: a key that was never written reads
    as the empty set and is NOT inserted (the model of `tmap`, DESIGN 11)"""

    def __init__(self, d):
        self._d = d

    def __getitem__(self, k):
        return self._d.get(k, frozenset())

    def keys(self):
        return self._d.keys()

    def __iter__(self):
        return iter(list(self._d))

    def __eq__(self, o):
        od = o._d if isinstance(o, TotalView) else o
        return {k: set(v) for k, v in self._d.items() if v} == {k: set(v) for k, v in od.items() if v}

    def __repr__(self):
        return 'TotalView(%r)' % dict(self._d)


def view_args(c, args):
    """contract-evaluation view of the arguments: tmap parameters become TotalViews"""
    out = dict(args)
    for n, t in c.params.items():
        if t.replace(' ', '').startswith('tmap[') and n in out and not isinstance(out[n], TotalView):
            out[n] = TotalView(out[n])
    return out


class _Lazy(_ast.NodeTransformer):
    """implies(a, b) -> (not a) or b, so that b is only evaluated when a holds."""

    def visit_Call(self, node):
        self.generic_visit(node)
        if isinstance(node.func, _ast.Name) and node.func.id == 'implies' and len(node.args) == 2:
            return _ast.BoolOp(op=_ast.Or(), values=[_ast.UnaryOp(op=_ast.Not(), operand=node.args[0]), node.args[1]])
        return node


_code_cache = {}


def compile_clause(text):
    if text not in _code_cache:
        tree = _ast.parse(text.strip(), mode='eval')
        tree = _ast.fix_missing_locations(_Lazy().visit(tree))
        _code_cache[text] = compile(tree, '<contract>', 'eval')
    return _code_cache[text]


def ceval(text, env):
    return eval(compile_clause(text), env)


def runtime_namespace(extra=None):
    """Python functions for the macros and the spec built-ins (E2 evaluation)."""
    import dataclasses
    ns = {}

    def implies(a, b):
        return (not a) or b

    def distinct(s):
        s = list(s)
        return len(set(s)) == len(s)

    def is_sorted(s):
        s = list(s)
        return all(a < b for a, b in zip(s, s[1:]))

    def updated(d, k, v):
        d2 = dict(d)
        d2[k] = v
        return d2

    def removed(d, k):
        d2 = dict(d)
        d2.pop(k, None)
        return d2

    def without(d, names):
        return {k: v for k, v in d.items() if k not in names}

    def card(s):
        return len(set(s))

    def get(d, k, dflt):
        return d.get(k, dflt)

    def same_elements(a, b):
        return set(a) == set(b)

    def reach1(graph, a, b):
        seen, st = set(), list(graph[a].jump_targets)
        while st:
            x = st.pop()
            if x in seen:
                continue
            seen.add(x)
            if x in graph:
                st.extend(graph[x].jump_targets)
        return b in seen

    # the shapes of generated names follow the current source of NameGenerator (fin/name_lemmas.shape_of): the property
    # (C18) is about freshness, not about the literal pieces of a name
    from fin.name_lemmas import shape_of as _shape_of
    import re as _re

    def _fmt(meth, kind, idx):
        return ''.join(p[1] if p[0] == 'lit' else str(kind) if p[0] == 'kind' else str(idx) for p in _shape_of(meth))

    def block_name(kind, idx):
        return _fmt('new_block_name', kind, idx)

    def region_name(kind, idx):
        return _fmt('new_region_name', kind, idx)

    def var_name(kind, idx):
        return _fmt('new_var_name', kind, idx)

    _rx_cache = {}

    def _block_rx():
        if 'rx' not in _rx_cache:
            _rx_cache['rx'] = _re.compile(_block_rx_text(), _re.S)
        return _rx_cache['rx']

    def _block_rx_text():
        return '^' + ''.join(_re.escape(p[1]) if p[0] == 'lit' else '(.*)' if p[0] == 'kind' else '([0-9]+)'
                             for p in _shape_of('new_block_name')) + '$'

    def gen_index(n):
        m = _block_rx().match(str(n))
        return int(m.group(2)) if m and str(int(m.group(2))) == m.group(2) else -1

    def is_generated(n, kind):
        m = _block_rx().match(str(n))
        return bool(m) and m.group(1) == kind and str(int(m.group(2))) == m.group(2)

    def dominates(entries, preds, a, n):
        """path-based definition, by brute force: every path e = v0 -> ... -> vk = n (k >= 0, e in entries,
        v_i in preds[v_i+1]) passes a  <=>  a == n, or no entry is met when walking backwards from n without
        entering a"""
        if a == n:
            return True
        seen, st = set(), [n]
        while st:
            x = st.pop()
            if x in seen or x == a:
                continue
            seen.add(x)
            if x in entries:
                return False
            st.extend(preds[x])
        return True

    def dgfp(entries, preds, nodes, X):
        """the D-gfp instance, evaluated for real (validates the axiom on every run-time case)"""
        ns_ = set(nodes)
        prem = (all(x == e for e in entries if e in X for x in X[e])
                and all(all(x in X.get(p, ()) for p in preds[n]) for n in ns_ if n not in entries and n in X for x in X[n] if x != n)
                and all(p in ns_ for n in ns_ for p in preds[n]))
        return (not prem) or all(dominates(entries, preds, x, n) for n in ns_ if n in X for x in X[n])

    class LazyMap:
        """tmap(lambda d: S(d)) at run time: compared with a real defaultdict on the keys that dictionary holds and on
        the `support` names supplied by the contract text through the closure (all other keys read as empty on
        the dictionary side; the lambda is evaluated there too when the caller subscripts)"""

        def __init__(self, f, support=()):
            self.f = f
            self.support = list(support)

        def __getitem__(self, k):
            return set(self.f(k))

        def keys(self):
            return ()

        def __eq__(self, o):
            d = o._d if isinstance(o, TotalView) else o
            return all(set(self.f(k)) == set(v) for k, v in d.items()) and all(set(self.f(k)) == set(d.get(k, ())) for k in self.support)

    def fwd_rank(seq, be, p):
        return sum(1 for t in list(seq)[:p] if t not in be)

    def hier_names(sub):
        out, st = set(), [sub]
        while st:
            g = st.pop()
            for k, b in g.graph.items():
                out.add(k)
                if type(b).__name__ == 'RegionBlock' and b.subregion is not None:
                    st.append(b.subregion)
        return out

    def region_names(sub):
        out, st = set(), [sub]
        while st:
            g = st.pop()
            for k, b in g.graph.items():
                if type(b).__name__ == 'RegionBlock':
                    out.add(b.name)
                    if b.subregion is not None:
                        st.append(b.subregion)
        return out

    ns.update(fwd_rank=fwd_rank, hier_names=hier_names, region_names=region_names)
    ns.update(dominates=dominates, dgfp=dgfp, tmap=LazyMap, identical=lambda a, b: a == b, same_value=lambda a, b: a == b)
    import ast as _pyast
    ns.update(isa=isinstance, ast=_pyast)
    ns.update(block_name=block_name, region_name=region_name, gen_region_name=region_name, var_name=var_name, gen_index=gen_index, is_generated=is_generated)
    ns.update(reach1=reach1, implies=implies, distinct=distinct, is_sorted=is_sorted, updated=updated, removed=removed,
              without=without, card=card, get=get, same_elements=same_elements, replace=dataclasses.replace)
    from numba_scfg.core.datastructures import basic_block as bb
    for n in dir(bb):
        o = getattr(bb, n)
        if isinstance(o, type):
            ns[n] = o
    from numba_scfg.core import utils as _ut
    for n in ('is_conditional_jump', 'is_unconditional_jump', 'is_exiting', '_next_inst_offset', '_prev_inst_offset', '_cond_jump', '_uncond_jump', '_terminating'):
        ns[n] = getattr(_ut, n)
    ns['issubclass_synthetic'] = lambda c: isinstance(c, type) and issubclass(c, bb.SyntheticBlock)
    if extra:
        ns.update(extra)
    for name, (params, body) in MACROS.items():
        ns[name] = eval(compile_clause('lambda %s: %s' % (', '.join(params), body)), ns)
    return ns
