"""Contracts for the writable block of the AST front end (ast_transforms.py, C08): how a block is sealed decides where
`return`, `break`, `continue` and fall-through go.  An ast node is an opaque object here: only its class membership is
observed (`isa`, an uninterpreted relation; at run time `isinstance`)."""
from pyvc.contract import Contract, register

AT = 'numba_scfg.core.datastructures.ast_transforms'
W = AT + ':WritableASTBlock.'
LAST = 'self.instructions[len(self.instructions) - 1]'


def _is(cls):
    return '(len(self.instructions) > 0 and isa(%s, %s))' % (LAST, cls)


register(Contract(
    qual=W + 'set_jump_targets', params={'self': 'WritableASTBlock', 'indices': 'tuple[int]'}, modifies=['self.jump_targets'],
    ensures={'def': 'len(self.jump_targets) == len(indices) and all(self.jump_targets[i] == str(indices[i]) for i in range(len(indices)))'},
    properties=['C08'], gen='wblock',
))
register(Contract(
    qual=W + 'is_instruction', params={'self': 'WritableASTBlock', 'instruction': 'pyclass'}, returns='bool', pure=True,
    ensures={'def': 'result == (len(self.instructions) > 0 and isa(%s, instruction))' % LAST},
    properties=['C08'], gen='wblock',
))
for _m, _c in (('is_return', 'ast.Return'), ('is_break', 'ast.Break'), ('is_continue', 'ast.Continue')):
    register(Contract(
        qual=W + _m, params={'self': 'WritableASTBlock'}, returns='bool', pure=True,
        ensures={'def': 'result == %s' % _is(_c)},
        properties=['C08'], gen='wblock',
    ))
register(Contract(
    qual=W + 'seal_outside_loop', params={'self': 'WritableASTBlock', 'index': 'int'}, modifies=['self.jump_targets'],
    ensures={
        # a block that ends in `return` keeps its (empty) targets, every other block falls through to `index`
        'return': 'implies(%s, self.jump_targets == old.self.jump_targets)' % _is('ast.Return'),
        'fall-through': 'implies(not %s, len(self.jump_targets) == 1 and self.jump_targets[0] == str(index))' % _is('ast.Return'),
    },
    properties=['C08'], gen='wblock',
))
register(Contract(
    qual=W + 'seal_inside_loop', params={'self': 'WritableASTBlock', 'head_index': 'int', 'exit_index': 'int', 'default_index': 'int'},
    modifies=['self.jump_targets'],
    ensures={
        'continue': 'implies(%s, len(self.jump_targets) == 1 and self.jump_targets[0] == str(head_index))' % _is('ast.Continue'),
        'break': 'implies(not %s and %s, len(self.jump_targets) == 1 and self.jump_targets[0] == str(exit_index))'
                 % (_is('ast.Continue'), _is('ast.Break')),
        'return': 'implies(not %s and not %s and %s, self.jump_targets == old.self.jump_targets)'
                  % (_is('ast.Continue'), _is('ast.Break'), _is('ast.Return')),
        'fall-through': 'implies(not %s and not %s and not %s, len(self.jump_targets) == 1 and self.jump_targets[0] == str(default_index))'
                        % (_is('ast.Continue'), _is('ast.Break'), _is('ast.Return')),
    },
    properties=['C08'], gen='wblock',
))
