"""Contracts for the bytecode front end (C09): utils, FlowInfo, PythonBytecodeBlock.get_instructions.
The instruction stream is a sequence of records (offset, opname, argval, is_jump_target)."""
from pyvc.contract import Contract, LoopSpec, register

UT = 'numba_scfg.core.utils'
FI = 'numba_scfg.core.datastructures.flow_info'
BB = 'numba_scfg.core.datastructures.basic_block'
SC = 'numba_scfg.core.datastructures.scfg'

# the classification itself is decided by E3 (fin/opcodes.py) against the interpreter's metadata;
# here the three predicates are just their table lookups
for fn, tbl in (('is_conditional_jump', '_cond_jump'), ('is_unconditional_jump', '_uncond_jump'), ('is_exiting', '_terminating')):
    register(Contract(qual=UT + ':' + fn, params={'opname': 'name'}, returns='bool', pure=True,
                      inline='opname in %s' % tbl, ensures={'def': 'result == (opname in %s)' % tbl}, properties=['C09'], runtime=False))
register(Contract(qual=UT + ':_next_inst_offset', params={'offset': 'int'}, returns='int', pure=True,
                  inline='offset + 2', ensures={'def': 'result == offset + 2'}, properties=['C09'], runtime=False))
register(Contract(qual=UT + ':_prev_inst_offset', params={'offset': 'int'}, returns='int', pure=True,
                  inline='offset - 2', ensures={'def': 'result == offset - 2'}, properties=['C09'], runtime=False))

register(Contract(
    qual=FI + ':FlowInfo._add_jump_inst', params={'self': 'FlowInfo', 'offset': 'int', 'targets': 'tuple[int]'},
    modifies=['self.block_offsets', 'self.jump_insts'],
    ensures={
        'offsets': 'self.block_offsets == old.self.block_offsets | set(targets)',
        'jumps': 'self.jump_insts == updated(old.self.jump_insts, offset, targets)',
    },
    loops={'for off in targets': LoopSpec(inv={'offsets': 'self.block_offsets == old.self.block_offsets | _i_seen'})},
    properties=['C09'], gen='flowinfo',
))

CJ = 'is_conditional_jump(bc[k].opname)'
UJ = 'is_unconditional_jump(bc[k].opname)'
EX = 'is_exiting(bc[k].opname)'


def from_bytecode_clauses(bound):
    """bound: the range expression of the instruction index k"""
    return {
        'block-offsets': 'result.block_offsets == {bc[k].offset for k in %s if bc[k].offset == 0 or bc[k].is_jump_target}'
                         ' | {bc[k].offset + 2 for k in %s if %s}'
                         ' | {bc[k].argval for k in %s if %s or (not %s and %s)}' % (bound, bound, CJ, bound, CJ, CJ, UJ),
        'jump-keys': 'set(result.jump_insts) == {bc[k].offset for k in %s if %s or %s or %s}' % (bound, CJ, UJ, EX),
        'jump-cond': 'all(implies(%s, result.jump_insts[bc[k].offset] == (bc[k].offset + 2, bc[k].argval)) for k in %s)' % (CJ, bound),
        'jump-uncond': 'all(implies(not %s and %s, result.jump_insts[bc[k].offset] == (bc[k].argval,)) for k in %s)' % (CJ, UJ, bound),
        'jump-exit': 'all(implies(not %s and not %s and %s, len(result.jump_insts[bc[k].offset]) == 0) for k in %s)' % (CJ, UJ, EX, bound),
    }


_ens = from_bytecode_clauses('range(len(bc))')
_ens['last'] = 'result.last_offset == bc[len(bc) - 1].offset'
_inv = {k: v.replace('result.', 'flowinfo.') for k, v in from_bytecode_clauses('range(_i)').items()}
register(Contract(
    qual=FI + ':FlowInfo.from_bytecode', params={'bc': 'list[inst]'}, returns='FlowInfo',
    requires={
        'nonempty': 'len(bc) > 0',
        # WFdis (assumed about dis.Bytecode, validated on the corpus): offsets strictly increasing
        'offsets-increasing': 'all(bc[a].offset < bc[b].offset for a in range(len(bc)) for b in range(a + 1, len(bc)))',
    },
    ensures=_ens,
    loops={'for inst in bc': LoopSpec(inv=_inv)},
    properties=['C09'], gen='stream',
    note='bc (a dis.Bytecode) is modelled as the list of its instructions',
))

# dataclass __post_init__ of SCFG: proved on its own (one "meta" region name is taken, the region record has kind "meta" and
# that name); at a constructor call it is applied through this contract
register(Contract(
    qual=SC + ':SCFG.__post_init__', params={'self': 'SCFG'}, runtime=False, properties=['C18', 'C09'],
    modifies=['self.name_gen.kinds', 'self.region.kind', 'self.region.name'],
    ensures={
        'kinds': 'self.name_gen.kinds == updated(old.self.name_gen.kinds, "meta", get(old.self.name_gen.kinds, "meta", 0) + 1)',
        'kind': 'self.region.kind == "meta"',
        'name': 'self.region.name == region_name("meta", get(old.self.name_gen.kinds, "meta", 0))',
    },
))

BN = 'block_name("python_bytecode", %s)'
OFFS = 'sorted(self.block_offsets)'
register(Contract(
    qual=FI + ':FlowInfo.build_basicblocks', params={'self': 'FlowInfo', 'end_offset': 'opt[int]'}, returns='SCFG',
    locals={'names': 'dict[int,name]'},
    requires={
        'nonempty': 'len(self.block_offsets) > 0',
        'no-explicit-end': 'end_offset is None',
        # established by FlowInfo.from_bytecode: every jump target is a block start ...
        'targets-are-starts': 'all(all(t in self.block_offsets for t in self.jump_insts[k]) for k in self.jump_insts)',
        # ... and the code ends with a jump or a return (WFdis; holds for every CPython code object in the domain)
        'ends-with-terminator': 'self.last_offset in self.jump_insts',
        'starts-before-end': 'all(o <= self.last_offset for o in self.block_offsets)',
    },
    ensures={
        'dom': 'set(result.graph) == {%s for k in range(len(%s))}' % (BN % 'k', OFFS),
        'begin': 'all(result.graph[%s].begin == %s[k] for k in range(len(%s)))' % (BN % 'k', OFFS, OFFS),
        'end': 'all(result.graph[%s].end == (%s[k + 1] if k + 1 < len(%s) else self.last_offset + 2) for k in range(len(%s)))' % (BN % 'k', OFFS, OFFS, OFFS),
        'class': 'all(type(result.graph[%s]) is PythonBytecodeBlock and len(result.graph[%s].backedges) == 0 and result.graph[%s].name == %s'
                 ' for k in range(len(%s)))' % (BN % 'k', BN % 'k', BN % 'k', BN % 'k', OFFS),
        'fallthrough': 'all(implies((result.graph[%s].end - 2) not in self.jump_insts, k + 1 < len(%s) and result.graph[%s]._jump_targets == (%s,))'
                       ' for k in range(len(%s)))' % (BN % 'k', OFFS, BN % 'k', BN % '(k + 1)', OFFS),
        'jumps': 'all(implies((result.graph[%s].end - 2) in self.jump_insts,'
                 ' len(result.graph[%s]._jump_targets) == len(self.jump_insts[result.graph[%s].end - 2])'
                 ' and all(any(%s[m] == self.jump_insts[result.graph[%s].end - 2][j] and result.graph[%s]._jump_targets[j] == %s'
                 ' for m in range(len(%s))) for j in range(len(self.jump_insts[result.graph[%s].end - 2]))))'
                 ' for k in range(len(%s)))' % (BN % 'k', BN % 'k', BN % 'k', OFFS, BN % 'k', BN % 'k', BN % 'm', OFFS, BN % 'k', OFFS),
    },
    loops={
        'for offset in offsets': LoopSpec(inv={
            'keys': 'set(names) == _i_seen',
            'vals': 'all(names[offsets[m]] == %s for m in range(_i))' % (BN % 'm'),
            'kinds': 'get(scfg.name_gen.kinds, "python_bytecode", 0) == _i',
            'graph': 'len(scfg.graph) == 0',
        }),
        'for begin, end in zip(offsets, [*offsets[1:], end_offset])': LoopSpec(inv={
            'dom': 'set(scfg.graph) == {%s for k in range(_i)}' % (BN % 'k'),
            'begin': 'all(scfg.graph[%s].begin == offsets[k] for k in range(_i))' % (BN % 'k'),
            'end': 'all(scfg.graph[%s].end == (offsets[k + 1] if k + 1 < len(offsets) else end_offset) for k in range(_i))' % (BN % 'k'),
            'class': 'all(type(scfg.graph[%s]) is PythonBytecodeBlock and len(scfg.graph[%s].backedges) == 0 and scfg.graph[%s].name == %s'
                     ' for k in range(_i))' % (BN % 'k', BN % 'k', BN % 'k', BN % 'k'),
            'fallthrough': 'all(implies((scfg.graph[%s].end - 2) not in self.jump_insts, k + 1 < len(offsets) and scfg.graph[%s]._jump_targets == (%s,))'
                           ' for k in range(_i))' % (BN % 'k', BN % 'k', BN % '(k + 1)'),
            'jumps': 'all(implies((scfg.graph[%s].end - 2) in self.jump_insts,'
                     ' len(scfg.graph[%s]._jump_targets) == len(self.jump_insts[scfg.graph[%s].end - 2])'
                     ' and all(any(offsets[m] == self.jump_insts[scfg.graph[%s].end - 2][j] and scfg.graph[%s]._jump_targets[j] == %s'
                     ' for m in range(len(offsets))) for j in range(len(self.jump_insts[scfg.graph[%s].end - 2]))))'
                     ' for k in range(_i))' % (BN % 'k', BN % 'k', BN % 'k', BN % 'k', BN % 'k', BN % 'm', BN % 'k'),
        }),
    },
    cuts={'block = PythonBytecodeBlock(': {
        'name': 'name == %s and begin == offsets[_i] and term_offset == end - 2' % (BN % '_i'),
        'end': 'end == (offsets[_i + 1] if _i + 1 < len(offsets) else end_offset)',
        'targets-jump': 'implies(term_offset in self.jump_insts, len(targets) == len(self.jump_insts[term_offset])'
                        ' and all(any(offsets[m] == self.jump_insts[term_offset][j] and targets[j] == %s for m in range(len(offsets)))'
                        ' for j in range(len(self.jump_insts[term_offset]))))' % (BN % 'm'),
        'targets-fall': 'implies(term_offset not in self.jump_insts, _i + 1 < len(offsets) and targets == (%s,))' % (BN % '(_i + 1)'),
    }},
    slices=8,
    properties=['C09'], gen='flowinfo',
))

register(Contract(
    qual=BB + ':PythonBytecodeBlock.get_instructions', params={'self': 'block', 'bcmap': 'dict[int,inst]'}, returns='list[inst]',
    locals={'out': 'list[inst]'},
    requires={
        # bcmap = {inst.offset: inst}: keys are the instructions' own (even) offsets
        'keys-are-offsets': 'all(bcmap[k].offset == k for k in bcmap)',
        'even-keys': 'all(k % 2 == 0 for k in bcmap)',
        'even-begin': 'self.begin % 2 == 0',
    },
    ensures={
        'elements': 'all(self.begin <= x.offset and x.offset < self.end and x.offset in bcmap and bcmap[x.offset] == x for x in result)',
        'complete': 'all(bcmap[o] in result for o in bcmap if self.begin <= o and o < self.end)',
        'ordered': 'all(result[a].offset < result[b].offset for a in range(len(result)) for b in range(a + 1, len(result)))',
    },
    loops={'while it < end': LoopSpec(
        inv={
            'parity': '(it - begin) % 2 == 0 and begin <= it and begin == self.begin and end == self.end',
            'elements': 'all(begin <= x.offset and x.offset < it and x.offset < end and x.offset in bcmap and bcmap[x.offset] == x for x in out)',
            'complete': 'all(bcmap[o] in out for o in bcmap if begin <= o and o < it)',
            'ordered': 'all(out[a].offset < out[b].offset for a in range(len(out)) for b in range(a + 1, len(out)))',
        },
        decreases='end - it + 2')},
    properties=['C09'], gen='block_bcmap',
))

register(Contract(
    qual=SC + ':SCFG.bcmap_from_bytecode', params={'bc': 'list[inst]'}, returns='dict[int,inst]',
    requires={'offsets-distinct': 'all(bc[a].offset < bc[b].offset for a in range(len(bc)) for b in range(a + 1, len(bc)))'},
    ensures={
        'keys': 'set(result) == {bc[k].offset for k in range(len(bc))}',
        'values': 'all(result[bc[k].offset] == bc[k] for k in range(len(bc)))',
    },
    properties=['C09'], gen='stream',
))
