"""Contracts for NameGenerator (C18).  str(kind) + infix + str(idx) is modelled with the uninterpreted
functions concat / str_of_int (pyvc.smt); the string facts (injectivity per shape, disjoint shapes) are
separate lemmas discharged by cvc5 on the real string theory (fin/name_lemmas.py)."""
from pyvc.contract import Contract, register

SC = 'numba_scfg.core.datastructures.scfg'

for meth, spec in (('new_block_name', 'block_name'), ('new_region_name', 'region_name'), ('new_var_name', 'var_name')):
    register(Contract(
        qual=SC + ':NameGenerator.' + meth, params={'self': 'NameGenerator', 'kind': 'name'}, returns='name',
        modifies=['self.kinds'],
        ensures={
            'name': 'result == %s(kind, get(old.self.kinds, kind, 0))' % spec,
            'kinds': 'self.kinds == updated(old.self.kinds, kind, get(old.self.kinds, kind, 0) + 1)',
        },
        properties=['C18', 'C12'], gen='namegen',
    ))
