"""Contracts for the read-only queries of SCFG (C13) — value mode (DESIGN 2.2)."""
from pyvc.contract import Contract, LoopSpec, register

SC = 'numba_scfg.core.datastructures.scfg'

register(Contract(
    qual=SC + ':SCFG.__getitem__', params={'self': 'SCFG', 'index': 'name'}, returns='block', pure=True,
    raises={'KeyError': 'index not in self.graph'},
    requires={}, ensures={'def': 'implies(index in self.graph, result == self.graph[index])'},
    properties=['C13'],
))
register(Contract(
    qual=SC + ':SCFG.__contains__', params={'self': 'SCFG', 'index': 'name'}, returns='bool', pure=True,
    inline='index in self.graph', ensures={'def': 'result == (index in self.graph)'},
    properties=['C13'],
))
register(Contract(
    qual=SC + ':SCFG.__len__', params={'self': 'SCFG'}, returns='int', pure=True,
    inline='len(self.graph)', ensures={'def': 'result == len(self.graph)'},
    properties=['C13'],
))

register(Contract(
    qual=SC + ':SCFG.exclude_blocks', params={'self': 'SCFG', 'exclude_blocks': 'set[name]'}, returns='set[name]',
    yields='{b for b in self.graph if b not in exclude_blocks}',
    ensures={'exactly': 'result == {b for b in self.graph if b not in exclude_blocks}'},
    loops={'for block in self.graph': LoopSpec(inv={
        'yielded': '_yielded == {b for b in _done if b not in exclude_blocks}'})},
    properties=['C13', 'C16'],
    note='generator: `yield x` is modelled as adding x to the ghost set _yielded with the obligation that x was not yielded before',
))

# the unique block without predecessors (predecessors by the back-edge-filtered jump_targets)
HEADS = '{n for n in self.graph if not any(n in self.graph[p].jump_targets for p in self.graph)}'
register(Contract(
    qual=SC + ':SCFG.find_head', params={'self': 'SCFG'}, returns='name', pure=True,
    locals={'heads': 'set[name]'},
    raises={'AssertionError': 'card(%s) != 1' % HEADS},
    ensures={
        'is-head': 'implies(card(%s) == 1, result in self.graph and not any(result in self.graph[p].jump_targets for p in self.graph))' % HEADS,
        'unique': 'implies(card(%s) == 1, all(h == result for h in %s))' % (HEADS, HEADS),
    },
    loops={
        'for name in self.graph.keys()': LoopSpec(inv={
            'heads': 'heads == {n for n in self.graph if not any(n in self.graph[p].jump_targets for p in _done)}'}),
        'for jt in block.jump_targets': LoopSpec(inv={
            'heads': 'heads == {n for n in self.graph if not any(n in self.graph[p].jump_targets for p in _done)'
                     ' and not any(block.jump_targets[k] == n for k in range(_i))}'}),
    },
    properties=['C13', 'C02'],
))

register(Contract(
    qual=SC + ':SCFG.find_exiting_and_exits', params={'self': 'SCFG', 'subgraph': 'set[name]'},
    returns='pair[list[name],list[name]]', pure=True,
    locals={'exiting': 'set[name]', 'exits': 'set[name]'},
    requires={'sub-in-dom': 'all(b in self.graph for b in subgraph)'},
    ensures={
        'exiting': 'result[0] == sorted({b for b in subgraph if self.graph[b].is_exiting'
                   ' or any(t not in subgraph for t in self.graph[b].jump_targets)})',
        'exits': 'result[1] == sorted({t for b in subgraph for t in self.graph[b].jump_targets if t not in subgraph})',
    },
    loops={
        'for inside in subgraph': LoopSpec(inv={
            'exiting': 'exiting == {b for b in _done if self.graph[b].is_exiting'
                       ' or any(t not in subgraph for t in self.graph[b].jump_targets)}',
            'exits': 'exits == {t for b in _done for t in self.graph[b].jump_targets if t not in subgraph}'}),
        'for jt in self.graph[inside].jump_targets': LoopSpec(inv={
            'exiting': 'exiting == entry.exiting | ({inside} if any(self.graph[inside].jump_targets[k] not in subgraph for k in range(_i)) else entry.exiting)',
            'exits': 'exits == entry.exits | {self.graph[inside].jump_targets[k] for k in range(_i)'
                     ' if self.graph[inside].jump_targets[k] not in subgraph}'}),
    },
    properties=['C13', 'C12'], gen='graph_and_subset',
))

register(Contract(
    qual=SC + ':SCFG.find_headers_and_entries', params={'self': 'SCFG', 'subgraph': 'set[name]'},
    returns='pair[list[name],list[name]]', pure=True,
    locals={'entries': 'set[name]', 'headers': 'set[name]'},
    # value mode: the recursion through the enclosing region is outside the proved
    # part (bounded stand-in covers nested levels); see DESIGN 5.C13
    requires={'top-level': 'self.region.kind == "meta"'},
    raises={'AssertionError': 'not any(t in subgraph for o in self.graph if o not in subgraph for t in self.graph[o]._jump_targets)'
                              ' and card(%s) != 1' % HEADS},
    ensures={
        'headers': 'implies(any(t in subgraph for o in self.graph if o not in subgraph for t in self.graph[o]._jump_targets),'
                   ' result[0] == sorted({t for o in self.graph if o not in subgraph for t in self.graph[o]._jump_targets if t in subgraph}))',
        'entries': 'implies(any(t in subgraph for o in self.graph if o not in subgraph for t in self.graph[o]._jump_targets),'
                   ' result[1] == sorted({o for o in self.graph if o not in subgraph'
                   ' and any(t in subgraph for t in self.graph[o]._jump_targets)}))',
        'no-outside-pred': 'implies(not any(t in subgraph for o in self.graph if o not in subgraph for t in self.graph[o]._jump_targets),'
                           ' len(result[0]) == 1 and result[0][0] == self.find_head() and len(result[1]) == 0)',
    },
    loops={
        'for outside in self.exclude_blocks(subgraph)': LoopSpec(inv={
            'headers': 'headers == {t for o in _done for t in self.graph[o]._jump_targets if t in subgraph}',
            'entries': 'entries == {o for o in _done if any(t in subgraph for t in self.graph[o]._jump_targets)}'}),
    },
    properties=['C13', 'C12'], gen='graph_and_subset',
))

register(Contract(
    qual=SC + ':SCFG.is_reachable_dfs', params={'self': 'SCFG', 'begin': 'name', 'end': 'name'}, returns='bool', pure=True,
    locals={'seen': 'set[name]', 'to_vist': 'list[name]'},
    raises={'KeyError': 'begin not in self.graph'},
    ensures={'def': 'implies(begin in self.graph, result == reach1(self.graph, begin, end))'},
    loops={'while True': LoopSpec(
        inv={
            'seen-reach': 'all(reach1(self.graph, begin, x) for x in seen)',
            'tv-reach': 'all(reach1(self.graph, begin, x) for x in to_vist)',
            'start': 'all(t in seen or t in to_vist for t in self.graph[begin].jump_targets)',
            'closed': 'all(t in seen or t in to_vist for x in seen if x in self.graph for t in self.graph[x].jump_targets)',
            'end-unseen': 'end not in seen',
        },
        assume={'R-ind': 'rind(self.graph, begin, seen)'})},
    properties=['C13'], gen='graph_and_pair',
))

# ---- the region-concealing view (C16), value mode: a region's sub-graph is an opaque identity whose block dictionary
# is an uninterpreted function of it; the C04 clause "a region's own targets are its exiting block's" is the precondition
# that makes "continue at the exiting block's targets" the same as "continue at the region's targets"
VG = 'self.scfg.graph'
REGION_SYNC = ('all(%s[k].exiting in %s[k].subregion.graph'
               ' and %s[k].subregion.graph[%s[k].exiting].jump_targets == %s[k].jump_targets'
               ' for k in %s if type(%s[k]) is RegionBlock)' % ((VG,) * 7))
START = '(head if head else self.scfg.find_head())'
register(Contract(
    qual=SC + ':ConcealedRegionView.__getitem__', params={'self': 'ConcealedRegionView', 'item': 'name'}, returns='block', pure=True,
    raises={'KeyError': 'item not in self.scfg.graph'},
    ensures={'def': 'implies(item in self.scfg.graph, result == self.scfg.graph[item])'},
    properties=['C16'], runtime=False,
))
register(Contract(
    qual=SC + ':ConcealedRegionView.region_view_iterator', params={'self': 'ConcealedRegionView', 'head': 'opt[name]'},
    returns='set[name]', locals={'to_visit': 'list[name]', 'seen': 'set[name]'},
    requires={'regions-sync': REGION_SYNC,
              'start-in': '%s in %s' % (START, VG)},
    raises={'AssertionError': 'not head and card(%s) != 1' % HEADS.replace('self.graph', VG)},
    # exactly the blocks and regions of this level that are the start or reachable from it, each once
    yields='{b for b in %s if b == %s or reach1(%s, %s, b)}' % (VG, START, VG, START),
    ensures={'exactly': 'result == {b for b in %s if b == %s or reach1(%s, %s, b)}' % (VG, START, VG, START)},
    loops={'while to_visit': LoopSpec(
        inv={
            'yielded': '_yielded == {b for b in seen if b in %s}' % VG,
            'seen-reach': 'all(x == %s or reach1(%s, %s, x) for x in seen)' % (START, VG, START),
            'tv-reach': 'all(x == %s or reach1(%s, %s, x) for x in to_visit)' % (START, VG, START),
            'start': '%s in seen or %s in to_visit' % (START, START),
            'closed': 'all(t in seen or t in to_visit for x in seen if x in %s for t in %s[x].jump_targets)' % (VG, VG),
        },
        assume={'R-ind': 'rind(%s, %s, seen)' % (VG, START)})},
    properties=['C16'], gen='view',
))

# ---- SCFG.__iter__ (C16): breadth-first over this level, descending into every region when it is reached.  The nested
# iteration (`yield from block.subregion`, this same generator) is used through its contract: it yields hier_names(sub).
SG = 'self.graph'
IT_START = 'self.find_head()'
IT_REACH = '(b == %s or reach1(%s, %s, b))' % (IT_START, SG, IT_START)
REGIONS = '[k for k in %s if type(%s[k]) is RegionBlock]' % (SG, SG)
register(Contract(
    qual=SC + ':SCFG.__iter__', params={'self': 'SCFG'}, returns='set[name]', yield_key=0,
    # a directly yielded item is a block of this level under its own name (at run time the nested items come through the
    # same stream: they carry a name of one of this level's regions' hierarchies)
    yield_check='(it[1] == self.graph[it[0]]) if it[0] in self.graph else'
                ' any(it[0] in hier_names(self.graph[r].subregion) for r in self.graph if type(self.graph[r]) is RegionBlock)',
    locals={'to_visit': 'list[name]', 'seen': 'list[name]'},
    requires={
        # names are unique across the hierarchy (C04): no key of this level is a name inside a region of this level, and
        # the regions of this level hold disjoint names
        'unique-level': 'all(k not in hier_names(%s[r].subregion) for k in %s for r in %s if type(%s[r]) is RegionBlock)' % (SG, SG, SG, SG),
        'unique-regions': 'all(implies(n in hier_names(%s[r1].subregion) and n in hier_names(%s[r2].subregion), r1 == r2)'
                          ' for r1 in %s if type(%s[r1]) is RegionBlock for r2 in %s if type(%s[r2]) is RegionBlock'
                          ' for n in hier_names(%s[r1].subregion))' % (SG, SG, SG, SG, SG, SG, SG),
    },
    raises={'AssertionError': 'card(%s) != 1' % HEADS},
    yields='{b for b in %s if %s} | {n for b in %s if %s and type(%s[b]) is RegionBlock for n in hier_names(%s[b].subregion)}'
           % (SG, IT_REACH, SG, IT_REACH, SG, SG),
    ensures={'exactly': 'result == {b for b in %s if %s} | {n for b in %s if %s and type(%s[b]) is RegionBlock'
                        ' for n in hier_names(%s[b].subregion)}' % (SG, IT_REACH, SG, IT_REACH, SG, SG)},
    loops={'while to_visit': LoopSpec(
        inv={
            'yielded': '_yielded == {b for b in seen if b in %s} | {n for b in seen if b in %s and type(%s[b]) is RegionBlock'
                       ' for n in hier_names(%s[b].subregion)}' % (SG, SG, SG, SG),
            'seen-reach': 'all(x == %s or reach1(%s, %s, x) for x in seen)' % (IT_START, SG, IT_START),
            'tv-reach': 'all(x == %s or reach1(%s, %s, x) for x in to_visit)' % (IT_START, SG, IT_START),
            'start': '%s in seen or %s in to_visit' % (IT_START, IT_START),
            'closed': 'all(t in seen or t in to_visit for x in seen if x in %s for t in %s[x].jump_targets)' % (SG, SG),
            'seen-distinct': 'distinct(seen)',
        },
        assume={'R-ind': 'rind(%s, %s, set(seen))' % (SG, IT_START)})},
    properties=['C16'], gen='iter_scfg',
))

# ---- SCFG.iter_subregions (C04: "walking region by region"): every region block of this level, each followed by the
# regions below it (the recursive call is used through this same contract: on a sub-graph it yields region_names(sub))
_ISR = 'isinstance(%s[%%s], RegionBlock)' % SG
register(Contract(
    qual=SC + ':SCFG.iter_subregions', params={'self': 'SCFG'}, returns='set[name]', yield_key='name', yield_ghost='region_names',
    # a directly yielded item is a region block of this level (at run time the nested items come through the same stream)
    yield_check='(isinstance(it, RegionBlock) and it == self.graph[it.name]) if it.name in self.graph else'
                ' any(it.name in region_names(self.graph[r].subregion) for r in self.graph if isinstance(self.graph[r], RegionBlock))',
    requires={
        'keys': 'all(%s[k].name == k for k in %s)' % (SG, SG),
        # region names are unique across the hierarchy (C04)
        'unique-level': 'all(k not in region_names(%s[r].subregion) for k in %s if %s for r in %s if %s)' % (SG, SG, _ISR % 'k', SG, _ISR % 'r'),
        'unique-regions': 'all(implies(n in region_names(%s[r1].subregion) and n in region_names(%s[r2].subregion), r1 == r2)'
                          ' for r1 in %s if %s for r2 in %s if %s for n in region_names(%s[r1].subregion))'
                          % (SG, SG, SG, _ISR % 'r1', SG, _ISR % 'r2', SG),
    },
    yields='{k for k in %s if %s} | {n for r in %s if %s for n in region_names(%s[r].subregion)}' % (SG, _ISR % 'k', SG, _ISR % 'r', SG),
    ensures={'exactly': 'result == {k for k in %s if %s} | {n for r in %s if %s for n in region_names(%s[r].subregion)}'
                        % (SG, _ISR % 'k', SG, _ISR % 'r', SG)},
    loops={'for node in self.graph.values()': LoopSpec(done='_done', inv={
        'yielded': '_yielded == {k for k in _done if %s} | {n for r in _done if %s for n in region_names(%s[r].subregion)}'
                   % (_ISR % 'k', _ISR % 'r', SG)})},
    properties=['C04', 'C16'], gen='iter_scfg',
))
