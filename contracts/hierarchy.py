"""Contracts in heap mode (DESIGN 11): the block dictionaries of region sub-graphs are state.  A region block holds the
identity of its sub-graph; `X.subregion.graph` reads the heap at that identity, `graph_at_entry(s)` the pre-state heap."""
from pyvc.contract import Contract, LoopSpec, register

SC = 'numba_scfg.core.datastructures.scfg'

# ---- facts about every sub-graph `s` of the pre-state heap (G = graph_at_entry(s)) and every block stored in it
G = 'graph_at_entry(s)'
# ... of the tree of sub-graphs the argument's sub-graph belongs to (what happens in the sub-graphs of other top-level
# regions is irrelevant to the call and untouched by it)
EACH = 'for s in all_subs() if isinstance(block, RegionBlock) and chain_root(s) == chain_root(block.subregion) for k in %s' % G
ALLSUBS = 'for s in all_subs() for k in %s' % G
B = '%s[k]' % G                                                   # a stored block
EX = 'graph_at_entry(%s.subregion)[%s.exiting]' % (B, B)           # its exiting block, if it is a region
PRE = {
    'wf': 'nesting_wf()',
    # sub-graphs are keyed by block name
    'keys': 'all(%s.name == k %s)' % (B, EACH),
    # the exiting block of a stored region exists
    'exiting': 'all(%s.exiting in graph_at_entry(%s.subregion) %s if isinstance(%s, RegionBlock))' % (B, B, EACH, B),
    # class invariant of stored branching blocks (C06) and distinct targets
    'branch': 'all(table_ok(%s) and distinct(%s._jump_targets) %s if isinstance(%s, SyntheticBranch))' % (B, B, EACH, B),
    # a region whose exiting block is itself a region or a branching block mirrors that block's arity (C04)
    'arity': 'all(fwd_rank(%s._jump_targets, %s.backedges, len(%s._jump_targets)) == len(%s.jump_targets) %s'
             ' if isinstance(%s, RegionBlock) and (isinstance(%s, RegionBlock) or isinstance(%s, SyntheticBranch)))'
             % (EX, EX, EX, B, EACH, B, EX, EX),
}
# ---- the same facts about the argument (the current block of the loop), whose sub-graph is read from the current heap
TE = 'block.subregion.graph[block.exiting]'
TOP = {
    'top-exiting': 'implies(isinstance(block, RegionBlock), block.exiting in block.subregion.graph)',
    'top-arity': 'implies(isinstance(block, RegionBlock) and block.exiting in block.subregion.graph'
                 ' and (isinstance(%s, RegionBlock) or isinstance(%s, SyntheticBranch)),'
                 ' fwd_rank(%s._jump_targets, %s.backedges, len(%s._jump_targets)) == len(block.jump_targets))' % ((TE,) * 5),
    # no new forward target is a declared back edge of any stored block
    'top-fwd': 'implies(isinstance(block, RegionBlock), all(t not in %s.backedges for t in block.jump_targets %s))' % (B, EACH),
}
IJ, BE, F = 'inner._jump_targets', 'inner.backedges', 'entry.fresh'
E0X = 'graph_at_entry(it0.block.subregion)[it0.block.exiting]'
E20 = 'graph_at_entry(%s.subregion)[%s.exiting]' % (E0X, E0X)
RK = 'fwd_rank(%s, %s, _i)' % (IJ, BE)
USED = '(len(%s) - len(fresh))' % F

OB = 'old.block'
OE = 'graph_at_entry(old.block.subregion)[old.block.exiting]'
NE = 'graph_now(old.block.subregion)[old.block.exiting]'
M0 = 'fwd_rank(%s._jump_targets, %s.backedges, len(%s._jump_targets))' % (OE, OE, OE)
# every back-edge position keeps its entry, the k-th other position receives the region's k-th forward target, targets
# the region has in addition are appended: the new length is proved, which entries they are is left to the run-time hierarchy
# clause, as is the case of more positions than targets (a merge)
COND1 = 'isinstance(%s, RegionBlock) and %s <= len(%s.jump_targets)' % (OB, M0, OB)
LEVEL1 = {
    'l1-len': 'implies(%s, len(%s._jump_targets) == len(%s._jump_targets) + len(%s.jump_targets) - %s)' % (COND1, NE, OE, OB, M0),
    'l1-pos': 'implies(%s, all(%s._jump_targets[p] == (%s._jump_targets[p] if %s._jump_targets[p] in %s.backedges'
              ' else %s.jump_targets[fwd_rank(%s._jump_targets, %s.backedges, p)]) for p in range(len(%s._jump_targets))))'
              % (COND1, NE, OE, OE, OE, OB, OE, OE, OE),
}

_NOREQ = ['-requires:branch', '-requires:arity', '-requires:exiting', '-requires:top-fwd', '-requires:top-arity', '-requires:top-exiting',
          '-requires:wf', '-requires:keys', '-fact:rank', '-fact:rank-prefix']
register(Contract(
    qual=SC + ':SCFG._sync_exiting', params={'block': 'block'}, heap=True, modifies=['$heap'],
    locals={'jt': 'list[name]', 'fresh': 'list[name]'},
    requires=dict(PRE, **TOP),
    ensures={
        # nothing but jump targets (and the value tables that follow them) changes in any stored block, no block is
        # added to or removed from any sub-graph (C05)
        'same-keys': 'all(set(s.graph) == set(%s) for s in all_subs())' % G,
        'same-fields': 'all(ib_plain(%s, s.graph[k]) and ib_branch(%s, s.graph[k]) %s)' % (B, B, ALLSUBS),
        # sub-graphs of other trees are not written; the nesting stays well founded
        'other-trees-same': 'all(same_graph(s) for s in all_subs() if chain_root(s) != chain_root(old.block.subregion))',
        'wf-kept': 'nesting_wf()',
        'noop': 'implies(not isinstance(old.block, RegionBlock), heap_unchanged())',
        **LEVEL1,
    },
    loops={
        'while isinstance(block, RegionBlock)': LoopSpec(inv=dict(TOP, **{
            'deeper-same': 'implies(isinstance(block, RegionBlock), all(same_graph(s) for s in all_subs()'
                           ' if sub_depth(s) >= sub_depth(block.subregion)))',
            'same-keys': 'all(set(s.graph) == set(%s) for s in all_subs())' % G,
            'same-fields': 'all(ib_plain(%s, s.graph[k]) and ib_branch(%s, s.graph[k]) %s)' % (B, B, ALLSUBS),
            'other-trees-same': 'all(same_graph(s) for s in all_subs() if chain_root(s) != chain_root(old.block.subregion))',
            'same-tree': 'implies(isinstance(block, RegionBlock), chain_root(block.subregion) == chain_root(old.block.subregion)'
                         ' and isinstance(old.block, RegionBlock))',
            'wf-kept': 'nesting_wf()',
            'first': 'implies(_iter == 0, same_value(block, old.block) and heap_unchanged())',
            'arg-region': 'implies(_iter >= 1, isinstance(old.block, RegionBlock))',
            **{k_: 'implies(_iter >= 1, %s)' % v_ for k_, v_ in LEVEL1.items()},
            'below': 'implies(_iter >= 1 and isinstance(block, RegionBlock), sub_depth(block.subregion) > sub_depth(old.block.subregion))',
        })),
        'for t in inner._jump_targets': LoopSpec(inv={
            'fresh-suffix': 'len(fresh) <= len(%s) and all(fresh[q] == %s[q + %s] for q in range(len(fresh)))' % (F, F, USED),
            'used': '%s == (%s if %s <= len(%s) else len(%s))' % (USED, RK, RK, F, F),
            'jt-len': 'implies(%s <= len(%s), len(jt) == _i)' % (RK, F),
            'jt-rank': 'fwd_rank(jt, %s, len(jt)) == %s' % (BE, USED),
            'jt-elems': 'all(x in %s or x in %s for x in jt)' % (BE, F),
            'jt-pos': 'implies(%s <= len(%s), all(jt[p] == (%s[p] if %s[p] in %s else %s[fwd_rank(%s, %s, p)]) for p in range(_i)))'
                      % (RK, F, IJ, IJ, BE, F, IJ, BE),
        }),
    },
    cuts={'end:while isinstance(block, RegionBlock)': {
        # the forward targets of the re-targeted exiting block are entries of its new tuple that are not back edges
        'jt-sub': "fact('BasicBlock.jump_targets', 'sub', block)",
        'jt-len-new': "fact('BasicBlock.jump_targets', 'len-rank', block)",
        'jt-len-old': "fact('BasicBlock.jump_targets', 'len-rank', graph_at_entry(it0.block.subregion)[it0.block.exiting])",
        # a region or branching exiting block keeps its number of forward targets
        # what one iteration writes: the exiting block of the current region, nothing else
        'w-others': 'all(s.graph[k] == graph_before(s)[k] for s in all_subs() for k in graph_before(s)'
                    ' if s != it0.block.subregion or k != it0.block.exiting)',
        'w-keys': 'all(set(s.graph) == set(graph_before(s)) for s in all_subs())',
        'w-cur': 'ib_plain(graph_before(it0.block.subregion)[it0.block.exiting], block)'
                 ' and ib_branch(graph_before(it0.block.subregion)[it0.block.exiting], block)'
                 ' and graph_now(it0.block.subregion)[it0.block.exiting] == block',
        'old-has': 'it0.block.exiting in graph_at_entry(it0.block.subregion)',
        'old-is': 'it0.block.subregion.graph[it0.block.exiting] == %s' % E0X,
        'be-same': 'identical(set(block.backedges), set(%s.backedges))' % E0X,
        'be-same-cur': 'identical(set(it0.block.subregion.graph[it0.block.exiting].backedges), set(%s.backedges))' % E0X,
        'none-left': 'implies(isinstance(%s, RegionBlock) or isinstance(%s, SyntheticBranch), len(fresh) == 0)' % (E0X, E0X),
        # the next level is still as it was on entry
        'next-sub': 'implies(isinstance(block, RegionBlock), block.subregion == %s.subregion and block.exiting == %s.exiting'
                    ' and isinstance(%s, RegionBlock))' % (E0X, E0X, E0X),
        'next-same': 'implies(isinstance(block, RegionBlock), block.subregion.graph == graph_at_entry(%s.subregion))' % E0X,
        'next-be': 'implies(isinstance(block, RegionBlock) and block.exiting in block.subregion.graph,'
                   ' identical(set(block.subregion.graph[block.exiting].backedges),'
                   ' set(graph_at_entry(%s.subregion)[%s.exiting].backedges)))' % (E0X, E0X),
        'arity-old': 'implies(isinstance(%s, RegionBlock) and (isinstance(%s, RegionBlock) or isinstance(%s, SyntheticBranch)),'
                     ' fwd_rank(%s._jump_targets, %s.backedges, len(%s._jump_targets)) == len(%s.jump_targets))'
                     % (E0X, E20, E20, E20, E20, E20, E0X),
        # first iteration: the re-targeted block is the argument's exiting block as it was on entry
        'c1': 'implies(it0._iter == 0, same_value(it0.block.subregion.graph[it0.block.exiting], %s))' % OE,
        'c2': 'implies(it0._iter == 0 and %s, len(fresh) == len(%s.jump_targets) - %s)' % (COND1, OB, M0),
        'rank-cat': 'implies(isinstance(%s, RegionBlock) or isinstance(%s, SyntheticBranch),'
                    ' fwd_rank(jt, %s.backedges, len(jt)) == len(it0.block.jump_targets))' % (E0X, E0X, E0X),
        'same-arity': 'implies(isinstance(%s, RegionBlock) or isinstance(%s, SyntheticBranch),'
                      ' len(block.jump_targets) == len(%s.jump_targets))' % (E0X, E0X, E0X),
    }},
    hints={
        'inv-step:top-fwd': ['top-fwd', 'jt-sub', 'jt-elems', 'fresh-suffix', 'block', 'def', 'be-same', 'be-same-cur', 'old-is', 'old-has',
                             'same-tree', 'next-sub', 'deeper-same', 'top-exiting',
                             '-requires:branch', '-requires:arity', '-requires:exiting', '-requires:keys', '-requires:top-arity',
                             '-requires:top-exiting', '-fact:rank', '-fact:rank-prefix'],
        'inv-step:same-fields': ['same-fields', 'w-others', 'w-keys', 'w-cur'] + _NOREQ,
        'inv-step:same-keys': ['same-keys', 'w-keys'] + _NOREQ,
        'inv-step:wf-kept': ['wf-kept', 'w-others', 'w-keys', 'w-cur'] + _NOREQ,
        'inv-step:top-arity': ['arity-old', 'old-has', 'next-sub', 'next-same', 'next-be', 'same-arity', 'old-is', 'top-exiting',
                               'fact:rank', 'fact:rank-prefix', '-requires:branch', '-requires:keys', '-requires:top-fwd',
                               '-requires:top-arity', '-requires:top-exiting', '-requires:exiting'],
    },
    properties=['C14', 'C04', 'C05'], gen='sync_exiting', slices=8,
))

# ---- update_exiting (transformations.py): rename `new_region_header` to `new_region_name` in the jump targets and back edges
# of the exiting block of a region, recursively down its exiting chain (C04, C14); recursive: the recursive call is used
# through this same contract (partial correctness)
TR = 'numba_scfg.core.transformations'
RB = 'region_block'
UOE = 'graph_at_entry(%s.subregion)[%s.exiting]' % (RB, RB)
UNE = 'graph_now(%s.subregion)[%s.exiting]' % (RB, RB)
REN = '(new_region_name if %s[i] == new_region_header else %s[i])'
# a stored block is the block it was, up to the renaming in its targets / back edges (and the value table following the targets)
RENAMED_OR_SAME = ('all(len(s.graph[k]._jump_targets) == len(%s._jump_targets) and len(s.graph[k].backedges) == len(%s.backedges)'
                   ' and all(s.graph[k]._jump_targets[i] == %s._jump_targets[i] or (%s._jump_targets[i] == new_region_header'
                   ' and s.graph[k]._jump_targets[i] == new_region_name) for i in range(len(%s._jump_targets)))'
                   ' and all(s.graph[k].backedges[i] == %s.backedges[i] or (%s.backedges[i] == new_region_header'
                   ' and s.graph[k].backedges[i] == new_region_name) for i in range(len(%s.backedges))) %s)' % ((B,) * 8 + (ALLSUBS,)))
# the facts are needed at and below the argument's sub-graph only (during the recursion the sub-graph above is incomplete:
# its exiting block has been popped and is added back after the recursive call)
DEEP = ('for s in all_subs() if sub_depth(s) >= sub_depth(%s.subregion) and chain_root(s) == chain_root(%s.subregion) for k in %s'
        % (RB, RB, G))
UPRE = {
    'wf': 'nesting_wf(%s.subregion)' % RB,
    'keys': 'all(%s.name == k %s)' % (B, DEEP),
    'exiting': 'all(%s.exiting in graph_at_entry(%s.subregion) %s if isinstance(%s, RegionBlock))' % (B, B, DEEP, B),
    'branch': 'all(table_ok(%s) and distinct(%s._jump_targets) %s if isinstance(%s, SyntheticBranch))' % (B, B, DEEP, B),
}
HAS_H = '(new_region_header in %s._jump_targets or new_region_header in %s.backedges)'
# no stale header below a clean region: a stored region that does not name the header has an exiting block that does not
# either (with the first-level clause: the whole exiting chain of the argument is free of the header afterwards)
NO_STALE_PRE = ('all(implies(not %s, not %s) %s if isinstance(%s, RegionBlock))'
                % (HAS_H % (B, B), HAS_H % (EX, EX), DEEP, B))
NB = 's.graph[k]'
NEX = '%s.subregion.graph[%s.exiting]' % (NB, NB)
NO_STALE_POST = ('all(implies(not %s, not %s) for s in all_subs() if sub_depth(s) >= sub_depth(%s.subregion)'
                 ' and chain_root(s) == chain_root(%s.subregion) for k in s.graph'
                 ' if isinstance(%s, RegionBlock) and %s.exiting in %s.subregion.graph)'
                 % (HAS_H % (NB, NB), HAS_H % (NEX, NEX), RB, RB, NB, NB, NB))

register(Contract(
    qual=TR + ':update_exiting', params={'region_block': 'block', 'new_region_header': 'name', 'new_region_name': 'name'},
    returns='block', heap=True, modifies=['$heap'], locals={'jt': 'list[name]', 'be': 'list[name]'},
    requires=dict(UPRE, **{
        'is-region': 'isinstance(%s, RegionBlock)' % RB,
        'top-exiting': '%s.exiting in %s.subregion.graph' % (RB, RB),
        # the new name is not yet a target of a stored branching block (its table can follow a renaming, not a merge)
        'fresh-name': 'all(new_region_name not in %s._jump_targets %s if isinstance(%s, SyntheticBranch))' % (B, DEEP, B),
        'distinct-names': 'new_region_name != new_region_header',
        'no-stale': NO_STALE_PRE,
    }),
    ensures={
        'result': 'same_value(result, %s)' % RB,
        'no-stale': NO_STALE_POST,
        # nothing above the argument's sub-graph is written
        'shallower-same': 'all(same_graph(s) for s in all_subs() if sub_depth(s) < sub_depth(%s.subregion))' % RB,
        # ... nor anything in the trees of other top-level regions
        'other-trees-same': 'all(same_graph(s) for s in all_subs() if chain_root(s) != chain_root(%s.subregion))' % RB,
        'level-1-clean': 'not %s' % (HAS_H % (UNE, UNE)),
        'same-keys': 'all(set(s.graph) == set(%s) for s in all_subs())' % G,
        'renamed-or-same': RENAMED_OR_SAME,
        # the exiting block of the argument: every occurrence renamed, position by position
        'level-1-targets': 'len(%s._jump_targets) == len(%s._jump_targets) and all(%s._jump_targets[i] == %s for i in range(len(%s._jump_targets)))'
                           % (UNE, UOE, UNE, REN % (UOE + '._jump_targets', UOE + '._jump_targets'), UOE),
        'level-1-backedges': 'len(%s.backedges) == len(%s.backedges) and all(%s.backedges[i] == %s for i in range(len(%s.backedges)))'
                             % (UNE, UOE, UNE, REN % (UOE + '.backedges', UOE + '.backedges'), UOE),
    },
    loops={
        'for idx, s in enumerate(jt)': LoopSpec(index='_i', inv={
            'len': 'len(jt) == len(entry.jt)',
            'done': 'all(jt[i] == %s for i in range(_i))' % (REN % ('entry.jt', 'entry.jt')),
            'rest': 'all(jt[i] == entry.jt[i] for i in range(_i, len(jt)))'}),
        'for idx, s in enumerate(be)': LoopSpec(index='_i', inv={
            'len': 'len(be) == len(entry.be)',
            'done': 'all(be[i] == %s for i in range(_i))' % (REN % ('entry.be', 'entry.be')),
            'rest': 'all(be[i] == entry.be[i] for i in range(_i, len(be)))'}),
    },
    properties=['C04', 'C14', 'C02'], gen='update_exiting',
))

# ---- insert_block, hierarchy view (C14 / C04): a second contract of the same function, in heap mode.  The main view
# (contracts/scfg_edit.py, value mode) is what proves the re-routing at the level of the graph; this view proves that the
# exiting chain of every region predecessor is re-targeted with it (by the contract of _sync_exiting, called on the
# re-targeted block of every predecessor).  Its preconditions repeat the main view's; the main view's loop invariants and
# cut facts are inherited as assumptions.
from pyvc.contract import REGISTRY as _REG
_MAIN = _REG[SC + ':SCFG.insert_block']
PO = 'old.self.graph[p]'          # the predecessor before the call
PN = 'self.graph[p]'              # ... and after
IS_REG = 'isinstance(self.graph[p], RegionBlock)'
TREE = 'for s in all_subs() if chain_root(s) == chain_root(self.graph[p].subregion) for k in %s' % G
PEX = 'graph_at_entry(self.graph[p].subregion)[self.graph[p].exiting]'
RANK_PEX = 'fwd_rank(%s._jump_targets, %s.backedges, len(%s._jump_targets))' % (PEX, PEX, PEX)
HIER_REQ = {
    'h-wf': 'nesting_wf()',
    # distinct region predecessors own distinct trees of sub-graphs
    'h-roots': 'all(implies(p != q, chain_root(self.graph[p].subregion) != chain_root(self.graph[q].subregion))'
               ' for p in predecessors if %s for q in predecessors if isinstance(self.graph[q], RegionBlock))' % IS_REG,
    'h-keys': 'all(%s.name == k for p in predecessors if %s %s)' % (B, IS_REG, TREE),
    'h-exiting': 'all(%s.exiting in graph_at_entry(%s.subregion) for p in predecessors if %s %s if isinstance(%s, RegionBlock))' % (B, B, IS_REG, TREE, B),
    'h-branch': 'all(table_ok(%s) and distinct(%s._jump_targets) for p in predecessors if %s %s if isinstance(%s, SyntheticBranch))' % (B, B, IS_REG, TREE, B),
    'h-arity': 'all(fwd_rank(%s._jump_targets, %s.backedges, len(%s._jump_targets)) == len(%s.jump_targets) for p in predecessors if %s %s'
               ' if isinstance(%s, RegionBlock) and (isinstance(%s, RegionBlock) or isinstance(%s, SyntheticBranch)))'
               % (EX, EX, EX, B, IS_REG, TREE, B, EX, EX),
    'h-top-exiting': 'all(self.graph[p].exiting in graph_at_entry(self.graph[p].subregion) for p in predecessors if %s)' % IS_REG,
    # a region predecessor whose exiting block is a region or branches is re-targeted by renaming (one target in S): the
    # value table of a branching block cannot follow an appended or a merged target
    'h-top-arity': 'all(%s == len(self.graph[p].jump_targets) and len(successors) > 0 and at_most_one_in(self.graph[p]._jump_targets, set(successors))'
                   ' for p in predecessors if %s and (isinstance(%s, RegionBlock) or isinstance(%s, SyntheticBranch)))'
                   % (RANK_PEX, IS_REG, PEX, PEX),
    # neither an old target nor the new block is a declared back edge of a block stored below the predecessor
    'h-fwd': 'all(new_name not in %s.backedges and all(t not in %s.backedges for t in self.graph[p]._jump_targets)'
             ' for p in predecessors if %s %s)' % (B, B, IS_REG, TREE),
}
H_OE = 'graph_at_entry(%s.subregion)[%s.exiting]' % (PO, PO)
H_NE = 'graph_now(%s.subregion)[%s.exiting]' % (PO, PO)
H_M0 = 'fwd_rank(%s._jump_targets, %s.backedges, len(%s._jump_targets))' % (H_OE, H_OE, H_OE)
H_COND = 'isinstance(%s, RegionBlock) and %s <= len(%s.jump_targets)' % (PO, H_M0, PN)
H_L1 = ('implies(%s, len(%s._jump_targets) == len(%s._jump_targets) + len(%s.jump_targets) - %s'
        ' and all(%s._jump_targets[i] == (%s._jump_targets[i] if %s._jump_targets[i] in %s.backedges'
        ' else %s.jump_targets[fwd_rank(%s._jump_targets, %s.backedges, i)]) for i in range(len(%s._jump_targets))))'
        % (H_COND, H_NE, H_OE, PN, H_M0, H_NE, H_OE, H_OE, H_OE, PN, H_OE, H_OE, H_OE))
_hreq = dict(_MAIN.requires)
_hreq.update(HIER_REQ)
register(Contract(
    qual=SC + ':SCFG.insert_block#hier', view_of=SC + ':SCFG.insert_block', params=dict(_MAIN.params), heap=True,
    modifies=['self.graph', '$heap'], locals=dict(_MAIN.locals), known=dict(_MAIN.known),
    requires=_hreq,
    ensures={
        # the exiting block of every region predecessor is re-targeted with the predecessor, position by position
        'h-level-1': 'all(%s for p in predecessors)' % H_L1,
        'h-same-keys': 'all(set(s.graph) == set(%s) for s in all_subs())' % G,
        'h-same-fields': 'all(ib_plain(%s, s.graph[k]) and ib_branch(%s, s.graph[k]) %s)' % (B, B, ALLSUBS),
        'h-wf': 'nesting_wf()',
        # sub-graphs that are not below a region predecessor are not written
        'h-untouched': 'all(same_graph(s) for s in all_subs() if not any(isinstance(old.self.graph[q], RegionBlock)'
                       ' and chain_root(s) == chain_root(old.self.graph[q].subregion) for q in predecessors))',
    },
    loops={
        'for name in predecessors': LoopSpec(inv={
            'h-done': 'all(%s for p in _i_seen)' % H_L1,
            'h-untouched': 'all(same_graph(s) for s in all_subs() if not any(isinstance(old.self.graph[q], RegionBlock)'
                           ' and chain_root(s) == chain_root(old.self.graph[q].subregion) for q in _i_seen))',
            'h-wf': 'nesting_wf()',
            'h-same-keys': 'all(set(s.graph) == set(%s) for s in all_subs())' % G,
            'h-same-fields': 'all(ib_plain(%s, s.graph[k]) and ib_branch(%s, s.graph[k]) %s)' % (B, B, ALLSUBS),
        }),
    },
    cuts={'self._sync_exiting(': {
        # the predecessor being processed has not been processed before; its tree of sub-graphs is as on entry
        'cur-new': 'name not in _i_seen and name in predecessors and block == old.self.graph[name]',
        'nb-same-sub': 'new_block.subregion == block.subregion and new_block.exiting == block.exiting'
                       ' and isinstance(new_block, RegionBlock) == isinstance(block, RegionBlock) and len(new_block.backedges) == 0',
        'tree-same': 'implies(isinstance(block, RegionBlock), all(same_graph(s) for s in all_subs()'
                     ' if chain_root(s) == chain_root(block.subregion)))',
        'nb-len': 'implies(isinstance(block, RegionBlock) and at_most_one_in(block._jump_targets, set(successors)) and len(successors) > 0,'
                  ' len(new_block.jump_targets) == len(block.jump_targets))',
    }},
    properties=['C14', 'C04'], gen='insert', slices=4,
))

# ---- the typed wrappers: their hierarchy views follow from insert_block's two views
for _meth in ('insert_SyntheticExit', 'insert_SyntheticTail', 'insert_SyntheticReturn', 'insert_SyntheticFill'):
    _wm = _REG[SC + ':SCFG.' + _meth]
    _wreq = dict(_wm.requires)
    _wreq.update(HIER_REQ)
    register(Contract(
        qual=SC + ':SCFG.%s#hier' % _meth, view_of=SC + ':SCFG.' + _meth, params=dict(_wm.params), heap=True,
        modifies=['self.graph', '$heap'], known=dict(_wm.known), requires=_wreq,
        ensures={
            'h-level-1': 'all(%s for p in predecessors)' % H_L1,
            'h-same-keys': 'all(set(s.graph) == set(%s) for s in all_subs())' % G,
            'h-same-fields': 'all(ib_plain(%s, s.graph[k]) and ib_branch(%s, s.graph[k]) %s)' % (B, B, ALLSUBS),
            'h-wf': 'nesting_wf()',
            'h-untouched': 'all(same_graph(s) for s in all_subs() if not any(isinstance(old.self.graph[q], RegionBlock)'
                           ' and chain_root(s) == chain_root(old.self.graph[q].subregion) for q in predecessors))',
        },
        hints={'h-level-1': ['h-level-1'], 'h-same-keys': ['h-same-keys'], 'h-same-fields': ['h-same-fields'], 'h-wf': ['h-wf'],
               'h-untouched': ['h-untouched']},
        properties=['C14', 'C04'], gen='insert',
    ))


# ---- join_tails_and_exits: every tail that is a region has its exiting block re-targeted with it (through the views of
# the typed wrappers it calls)
_jm = _REG[SC + ':SCFG.join_tails_and_exits']
_TN = 'block_name("synth_tail", get(self.name_gen.kinds, "synth_tail", 0))'
_EN = 'block_name("synth_exit", get(self.name_gen.kinds, "synth_exit", 0))'


def _for_tails(text, new_name):
    return text.replace('predecessors', 'tails').replace('successors', 'exits').replace('new_name', new_name)


_jreq = dict(_jm.requires)
for _k, _v in HIER_REQ.items():
    if _k == 'h-fwd':
        _jreq['h-fwd-tail'] = _for_tails(_v, _TN)
        _jreq['h-fwd-exit'] = _for_tails(_v, _EN)
    else:
        _jreq[_k] = _for_tails(_v, 'new_name')
_JL1 = H_L1.replace('predecessors', 'tails')
register(Contract(
    qual=SC + ':SCFG.join_tails_and_exits#hier', view_of=SC + ':SCFG.join_tails_and_exits', params=dict(_jm.params), returns=_jm.returns,
    heap=True, modifies=['self.graph', 'self.name_gen.kinds', '$heap'], known=dict(_jm.known), requires=_jreq,
    ensures={
        # whenever something is inserted (not the 1 tail / 1 exit case, where nothing changes)
        'h-level-1': 'implies(not (len(tails) == 1 and len(exits) == 1), all(%s for p in tails))' % H_L1,
        'h-same-keys': 'all(set(s.graph) == set(%s) for s in all_subs())' % G,
        'h-same-fields': 'all(ib_plain(%s, s.graph[k]) and ib_branch(%s, s.graph[k]) %s)' % (B, B, ALLSUBS),
        'h-wf': 'nesting_wf()',
    },
    properties=['C14', 'C04'], gen='tails_exits',
))

# ---- insert_block_and_control_blocks, hierarchy view: every re-routed arc of a region predecessor is re-routed in its
# exiting chain as well (targets are renamed position by position, so the arity never changes)
_cm = _REG[SC + ':SCFG.insert_block_and_control_blocks']
_NOT_GEN = 'not (is_generated(t, "synth_asign") and gen_index(t) >= get(self.name_gen.kinds, "synth_asign", 0))'
_creq = dict(_cm.requires)
for _k in ('h-wf', 'h-roots', 'h-keys', 'h-exiting', 'h-branch', 'h-arity', 'h-top-exiting'):
    _creq[_k] = HIER_REQ[_k]
_creq['h-top-arity'] = ('all(%s == len(self.graph[p].jump_targets) for p in predecessors if %s and (isinstance(%s, RegionBlock)'
                        ' or isinstance(%s, SyntheticBranch)))' % (RANK_PEX, IS_REG, PEX, PEX))
# neither an old target nor a name the generator is about to hand out is a declared back edge of a block stored below
_creq['h-fwd'] = ('all(all(%s for t in %s.backedges) and all(t not in %s.backedges for t in self.graph[p]._jump_targets)'
                  ' for p in predecessors if %s %s)' % (_NOT_GEN, B, B, IS_REG, TREE))
register(Contract(
    qual=SC + ':SCFG.insert_block_and_control_blocks#hier', view_of=SC + ':SCFG.insert_block_and_control_blocks',
    params=dict(_cm.params), heap=True, modifies=['self.graph', 'self.name_gen.kinds', '$heap'], locals=dict(_cm.locals), known=dict(_cm.known),
    requires=_creq,
    ensures={
        'h-level-1': 'all(%s for p in predecessors)' % H_L1,
        'h-same-keys': 'all(set(s.graph) == set(%s) for s in all_subs())' % G,
        'h-same-fields': 'all(ib_plain(%s, s.graph[k]) and ib_branch(%s, s.graph[k]) %s)' % (B, B, ALLSUBS),
        'h-wf': 'nesting_wf()',
    },
    loops={
        'for name in predecessors': LoopSpec(inv={
            'h-done': 'all(%s for p in _i_seen)' % H_L1,
            'h-untouched': 'all(same_graph(s) for s in all_subs() if not any(isinstance(old.self.graph[q], RegionBlock)'
                           ' and chain_root(s) == chain_root(old.self.graph[q].subregion) for q in _i_seen))',
            'h-wf': 'nesting_wf()',
            'h-same-keys': 'all(set(s.graph) == set(%s) for s in all_subs())' % G,
            'h-same-fields': 'all(ib_plain(%s, s.graph[k]) and ib_branch(%s, s.graph[k]) %s)' % (B, B, ALLSUBS),
        }),
        'for s in sorted(set(jt).intersection(successors))': LoopSpec(index='_j', inv={
            # the inner loop only adds blocks
            'h-old-same': 'all(k in self.graph and same_value(self.graph[k], entry.self.graph[k]) for k in entry.self.graph)'}),
    },
    cuts={'self._sync_exiting(': {
        'cur-new': 'name not in _i_seen and name in predecessors and block == old.self.graph[name]',
        'nb-same-sub': 'replaced.subregion == block.subregion and replaced.exiting == block.exiting'
                       ' and isinstance(replaced, RegionBlock) == isinstance(block, RegionBlock) and len(replaced.backedges) == 0',
        'tree-same': 'implies(isinstance(block, RegionBlock), all(same_graph(s) for s in all_subs()'
                     ' if chain_root(s) == chain_root(block.subregion)))',
        'nb-len': 'len(replaced.jump_targets) == len(block.jump_targets)',
        'nb-targets': 'all(t in block._jump_targets or (is_generated(t, "synth_asign")'
                      ' and gen_index(t) >= get(old.self.name_gen.kinds, "synth_asign", 0)) for t in replaced.jump_targets)',
    }, 'end:for name in predecessors': {
        'e-seen': 'all(p != name and same_value(self.graph[p], it0.self.graph[p]) for p in _i_seen)',
        'e-cur': 'self.graph[name] == replaced',
        'e-heap-seen': 'all(same_value(graph_now(old.self.graph[p].subregion), graph_before(old.self.graph[p].subregion))'
                       ' for p in _i_seen if isinstance(old.self.graph[p], RegionBlock))',
        'e-done-seen': 'all(%s for p in _i_seen)' % H_L1,
        'e-done-cur': 'all(%s for p in predecessors if p == name)' % H_L1,
    }},
    properties=['C14', 'C04'], gen='insert_ctrl', slices=4,
))


# ---- extract_region (transformations.py), top level: the blocks of `region_blocks` move into a new sub-graph unchanged, a
# region block takes their place, every entry is re-targeted from the header to the region (down its exiting chain if it is a
# region itself); C05 (conservation), C04 (header / exiting / sub-graph of the new region), C14, C18
XG0 = 'old.scfg.graph'
XRN = 'gen_region_name(region_kind, get(old.scfg.name_gen.kinds, region_kind, 0))'
XOUT = 'any(t in region_blocks for o in %s if o not in region_blocks for t in %s[o]._jump_targets)' % (XG0, XG0)
XENT = '(%s not in region_blocks and any(t in region_blocks for t in old.scfg.graph[%s]._jump_targets))'
XNEW = 'scfg.graph[%s]' % XRN
# o is an entry that is a region block
XRENT = '(isinstance(scfg.graph[%s], RegionBlock) and %s not in region_blocks and any(t in region_blocks for t in scfg.graph[%s]._jump_targets))'
XTREE = ('for o in scfg.graph if %s for s in all_subs() if chain_root(s) == chain_root(scfg.graph[o].subregion) for k in %s'
         % (XRENT % ('o', 'o', 'o'), G))
XHDR0 = 'scfg.find_headers_and_entries(region_blocks)[0][0]'
XSUBDEF = ('all(k in graph_now(head_subgraph) and graph_now(head_subgraph)[k] == old.scfg.graph[k] for k in region_blocks)'
           ' and all(k in region_blocks for k in graph_now(head_subgraph))')
XRENT0 = XRENT.replace('scfg.graph', 'old.scfg.graph')
XOE = 'graph_at_entry(old.scfg.graph[o].subregion)[old.scfg.graph[o].exiting]'
XNE = 'graph_now(old.scfg.graph[o].subregion)[old.scfg.graph[o].exiting]'


def _xl1(rn, hdr):
    return ('len({ne}._jump_targets) == len({oe}._jump_targets) and all({ne}._jump_targets[i] == ({rn} if {oe}._jump_targets[i] == {hdr}'
            ' else {oe}._jump_targets[i]) for i in range(len({oe}._jump_targets))) and len({ne}.backedges) == len({oe}.backedges)'
            ' and all({ne}.backedges[i] == ({rn} if {oe}.backedges[i] == {hdr} else {oe}.backedges[i])'
            ' for i in range(len({oe}.backedges)))').format(ne=XNE, oe=XOE, rn=rn, hdr=hdr)
XHEADS = '{n for n in scfg.graph if not any(n in scfg.graph[p].jump_targets for p in scfg.graph)}'
XEXC = '(scfg.graph[%s].is_exiting or any(t not in region_blocks for t in scfg.graph[%s].jump_targets))'
XH = '%s.header' % XNEW
XX = '%s.exiting' % XNEW
XREN = '(%s if %%s[i] == %s else %%s[i])' % (XRN, XH)
XRENAMED = ('len(scfg.graph[%%s]._jump_targets) == len(%s[%%s]._jump_targets) and len(scfg.graph[%%s].backedges) == len(%s[%%s].backedges)'
            ' and all(scfg.graph[%%s]._jump_targets[i] == (%s if %s[%%s]._jump_targets[i] == %%s else %s[%%s]._jump_targets[i])'
            ' for i in range(len(%s[%%s]._jump_targets)))'
            ' and all(scfg.graph[%%s].backedges[i] == (%s if %s[%%s].backedges[i] == %%s else %s[%%s].backedges[i])'
            ' for i in range(len(%s[%%s].backedges)))' % (XG0, XG0, XRN, XG0, XG0, XG0, XRN, XG0, XG0, XG0))


def _xrenamed(k, hdr):
    return XRENAMED % (k, k, k, k, k, k, hdr, k, k, k, k, hdr, k, k)


register(Contract(
    qual=TR + ':extract_region',
    params={'scfg': 'SCFG', 'region_blocks': 'set[name]', 'region_kind': 'name', 'parent_region': 'block'},
    heap=True, modifies=['scfg.graph', 'scfg.name_gen.kinds', 'parent_region', '$heap'],
    locals={'jt': 'list[name]', 'be': 'list[name]'},
    requires={
        'top-level': 'scfg.region.kind == "meta"',
        'keys': 'all(scfg.graph[k].name == k for k in scfg.graph)',
        'blocks-in': 'all(b in scfg.graph for b in region_blocks)',
        'name-fresh': '%s not in scfg.graph' % XRN.replace('old.', ''),
        # exactly one block of the region is entered from outside (or none and the graph has one head) and exactly one
        # leaves it - in the words of the two proved queries the function asks
        'one-head': 'implies(not %s, card(%s) == 1)' % (XOUT.replace('old.', ''), XHEADS),
        'head-in': 'implies(not %s, scfg.find_head() in region_blocks)' % XOUT.replace('old.', ''),
        'one-header': 'len(scfg.find_headers_and_entries(region_blocks)[0]) == 1',
        'one-exiting': 'len(scfg.find_exiting_and_exits(region_blocks)[0]) == 1',
        # an entry that branches on a control variable has a sound value table (its targets are renamed, the table follows)
        'branch-entries': 'all(table_ok(scfg.graph[o]) and distinct(scfg.graph[o]._jump_targets) for o in scfg.graph'
                          ' if isinstance(scfg.graph[o], SyntheticBranch) and %s)' % (XENT % ('o', 'o')).replace('old.', ''),
        # entries that are regions themselves: the tree of sub-graphs below each is well formed (what update_exiting needs)
        'e-wf': 'all(nesting_wf(scfg.graph[o].subregion) for o in scfg.graph if %s)' % (XRENT % ('o', 'o', 'o')),
        'e-roots': 'all(implies(o != o2, chain_root(scfg.graph[o].subregion) != chain_root(scfg.graph[o2].subregion))'
                   ' for o in scfg.graph if %s for o2 in scfg.graph if %s)' % (XRENT % ('o', 'o', 'o'), XRENT % ('o2', 'o2', 'o2')),
        'e-keys': 'all(%s.name == k %s)' % (B, XTREE),
        'e-exiting': 'all(%s.exiting in graph_at_entry(%s.subregion) %s if isinstance(%s, RegionBlock))' % (B, B, XTREE, B),
        'e-branch': 'all(table_ok(%s) and distinct(%s._jump_targets) %s if isinstance(%s, SyntheticBranch))' % (B, B, XTREE, B),
        'e-top-exiting': 'all(scfg.graph[o].exiting in graph_at_entry(scfg.graph[o].subregion) for o in scfg.graph if %s)' % (XRENT % ('o', 'o', 'o')),
        'e-fresh-name': 'all(%s not in %s._jump_targets %s if isinstance(%s, SyntheticBranch))' % (XRN.replace('old.', ''), B, XTREE, B),
        'e-no-stale': 'all(implies(not (%s in %s._jump_targets or %s in %s.backedges), not (%s in %s._jump_targets or %s in %s.backedges))'
                      ' %s if isinstance(%s, RegionBlock))' % (XHDR0, B, XHDR0, B, XHDR0, EX, XHDR0, EX, XTREE, B),
    },
    ensures={
        # one region name of the requested kind and one "meta" name (the new sub-graph's own meta region) are taken
        'kinds': 'all(get(scfg.name_gen.kinds, k, 0) == get(old.scfg.name_gen.kinds, k, 0) + (1 if k == region_kind else 0)'
                 ' + (1 if k == "meta" else 0) for k in scfg.name_gen.kinds) and all(k in scfg.name_gen.kinds for k in old.scfg.name_gen.kinds)'
                 ' and region_kind in scfg.name_gen.kinds and "meta" in scfg.name_gen.kinds',
        'keys-kept': 'all(k in scfg.graph for k in %s if k not in region_blocks)' % XG0,
        'keys-new': '%s in scfg.graph and all((k in %s and k not in region_blocks) or k == %s for k in scfg.graph)' % (XRN, XG0, XRN),
        'non-entries': 'all(scfg.graph[k] == %s[k] for k in %s if k not in region_blocks and not %s)' % (XG0, XG0, XENT % ('k', 'k')),
        'entries': 'all(ue_plain(%s[k], scfg.graph[k]) and ue_branch(%s[k], scfg.graph[k]) and %s for k in %s if %s)'
                   % (XG0, XG0, _xrenamed('k', XH), XG0, XENT % ('k', 'k')),
        'region': 'type(%s) is RegionBlock and %s.name == %s and len(%s.backedges) == 0 and %s.kind == region_kind'
                  ' and %s in region_blocks and %s in region_blocks and %s._jump_targets == %s[%s].jump_targets'
                  % (XNEW, XNEW, XRN, XNEW, XNEW, XH, XX, XNEW, XG0, XX),
        'header-def': 'all(t == %s for o in %s if o not in region_blocks for t in %s[o]._jump_targets if t in region_blocks)' % (XH, XG0, XG0),
        'exiting-def': '%s[%s].is_exiting or any(t not in region_blocks for t in %s[%s].jump_targets)' % (XG0, XX, XG0, XX),
        'moved': 'all(k in graph_now(%s.subregion) and graph_now(%s.subregion)[k] == %s[k] for k in region_blocks)'
                 ' and all(k in region_blocks for k in graph_now(%s.subregion))' % (XNEW, XNEW, XG0, XNEW),
        # the exiting block of an entry that is a region is re-targeted with it, position by position
        'e-level-1': 'all(%s for o in %s if %s)' % (_xl1(XRN, XH), XG0, XRENT0 % ('o', 'o', 'o')),
        # sub-graphs that are neither the new one nor below an entry are not written
        'h-untouched': 'all(same_graph(s) for s in all_subs() if s != %s.subregion and not any(%s and chain_root(s) == chain_root(%s[o].subregion)'
                       ' for o in %s))' % (XNEW, XRENT0 % ('o', 'o', 'o'), XG0, XG0),
        'parent': 'parent_region == replace(old.parent_region, header=(%s if %s == old.parent_region.header else old.parent_region.header),'
                  ' exiting=(%s if %s == old.parent_region.exiting else old.parent_region.exiting))' % (XRN, XH, XRN, XX),
    },
    loops={
        'for name in entries': LoopSpec(inv={
            'dom': 'all(k in scfg.graph for k in %s) and all(k in %s for k in scfg.graph)' % (XG0, XG0),
            'untouched': 'all(same_value(scfg.graph[k], %s[k]) for k in %s if k not in _i_seen)' % (XG0, XG0),
            'done': 'all(ue_plain(%s[k], scfg.graph[k]) and ue_branch(%s[k], scfg.graph[k]) and %s for k in _i_seen)'
                    % (XG0, XG0, _xrenamed('k', 'region_header')),
            'h-new': 'same_value(graph_now(head_subgraph), entry.head_subgraph.graph)',
            'e-done': 'all(%s for o in _i_seen if isinstance(%s[o], RegionBlock))' % (_xl1('region_name', 'region_header'), XG0),
            'h-untouched': 'all(same_graph(s) for s in all_subs() if s != head_subgraph and not any(isinstance(%s[o], RegionBlock)'
                           ' and chain_root(s) == chain_root(%s[o].subregion) for o in _i_seen))' % (XG0, XG0),
        }),
        'for idx, s in enumerate(jt)': LoopSpec(index='_i', inv={
            'len': 'len(jt) == len(entry.jt)',
            'done': 'all(jt[i] == (region_name if entry.jt[i] == region_header else entry.jt[i]) for i in range(_i))',
            'rest': 'all(jt[i] == entry.jt[i] for i in range(_i, len(jt)))'}),
        'for idx, s in enumerate(be)': LoopSpec(index='_i', inv={
            'len': 'len(be) == len(entry.be)',
            'done': 'all(be[i] == (region_name if entry.be[i] == region_header else entry.be[i]) for i in range(_i))',
            'rest': 'all(be[i] == entry.be[i] for i in range(_i, len(be)))'}),
        'for k, v in region.subregion.graph.items()': LoopSpec(inv={}),
    },
    cuts={'entry = update_exiting(': {
        # the entry being processed has not been processed before; the tree of sub-graphs below it is as on entry
        'cur-new': 'name not in _i_seen and name in %s and name not in region_blocks and isinstance(%s[name], RegionBlock)'
                   ' and any(t in region_blocks for t in %s[name]._jump_targets)'
                   ' and entry.subregion == %s[name].subregion and entry.exiting == %s[name].exiting' % ((XG0,) * 5),
        'tree-same': 'all(same_graph(s) for s in all_subs() if chain_root(s) == chain_root(entry.subregion))',
        'hdr': 'region_header == old.%s and region_name == %s' % (XHDR0, XRN),
    }, 'for name in entries': {
        # the new sub-graph holds the blocks of the region as they were
        'sub-def': XSUBDEF,
        'ents': 'all(e in %s and e not in region_blocks for e in entries)' % XG0,
        'xh': 'region_exiting in region_blocks and region_header in region_blocks',
    }, 'region = RegionBlock(': {
        'x-same': 'region_exiting in scfg.graph and same_value(scfg.graph[region_exiting], %s[region_exiting])' % XG0,
        'sub-now': XSUBDEF,
    }},
    hints={
        'dom': ['dom', 'untouched', 'requires:keys', 'block', 'def', 'result', 'cur-new', 'fact:assert'],
        'call-pre:wf': ['cur-new', 'tree-same', 'requires:e-wf'],
        'call-pre:keys': ['cur-new', 'tree-same', 'requires:e-keys'],
        'call-pre:exiting': ['cur-new', 'tree-same', 'requires:e-exiting'],
        'call-pre:branch': ['cur-new', 'tree-same', 'requires:e-branch'],
        'call-pre:top-exiting': ['cur-new', 'tree-same', 'requires:e-top-exiting'],
        'call-pre:fresh-name': ['cur-new', 'tree-same', 'hdr', 'requires:e-fresh-name'],
        'call-pre:no-stale': ['cur-new', 'tree-same', 'hdr', 'requires:e-no-stale'],
    },
    properties=['C05', 'C04', 'C18'], gen='extract_region',
))
