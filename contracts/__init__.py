"""Sidecar contracts; importing this package registers all of them."""
from . import basic_block, scfg_queries, scfg_edit, namegen, bytecode, transforms, hierarchy  # noqa
