"""Sidecar contracts; importing this package registers all of them."""
from . import basic_block  # noqa
