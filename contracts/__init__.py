"""Sidecar contracts; importing this package registers all of them."""
from . import basic_block, scfg_queries, scfg_edit, namegen, bytecode, transforms, hierarchy, ast_blocks  # noqa

# ---- which property's check re-discharges which function (a property's proved part rests on these contracts)
from pyvc.contract import REGISTRY as _R


def _tag(prop, *suffixes):
    for q, c in _R.items():
        if any(q.endswith(s) for s in suffixes) and prop not in c.properties and not c.trusted:
            c.properties.append(prop)


_EDIT = (':SCFG.insert_block', ':SCFG.insert_SyntheticExit', ':SCFG.insert_SyntheticTail', ':SCFG.insert_SyntheticReturn', ':SCFG.insert_SyntheticFill',
         ':SCFG.insert_block_and_control_blocks', ':SCFG.join_returns', ':SCFG.join_tails_and_exits', ':SyntheticBranch.replace_jump_targets',
         ':SCFG._sync_exiting', ':SCFG.add_block', ':SCFG.remove_blocks', ':BasicBlock.jump_targets', ':BasicBlock.replace_jump_targets',
         ':BasicBlock.replace_backedges', ':BasicBlock.declare_backedge')
_QUERY = (':SCFG.find_head', ':SCFG.find_exiting_and_exits', ':SCFG.find_headers_and_entries', ':SCFG.is_reachable_dfs', ':SCFG.exclude_blocks',
          ':_doms', ':_post_doms', ':_find_dominators_internal', ':find_branch_regions', ':find_head_blocks', ':find_tail_blocks')
_tag('C01', *_EDIT)                     # per-arc preservation: the re-routing clauses of the primitives
_tag('C02', *(_EDIT + _QUERY))          # every no-raise obligation on the restructuring path
_tag('C03', *_QUERY)
_tag('C04', *_EDIT)
_tag('C05', *_EDIT)
_tag('C06', ':SyntheticBranch.replace_jump_targets', ':SCFG.insert_block_and_control_blocks', ':SCFG._sync_exiting', ':SCFG.insert_block')
_tag('C12', *(_QUERY + (':SCFG.join_returns', ':SCFG.join_tails_and_exits')))   # proved with arbitrary set iteration order
_tag('C16', ':SCFG.find_head', ':SCFG.is_reachable_dfs')
