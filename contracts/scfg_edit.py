"""Contracts for the edit primitives of SCFG (C14, C05, C04 value level) — value mode."""
from pyvc.contract import Contract, LoopSpec, register

SC = 'numba_scfg.core.datastructures.scfg'
BB = 'numba_scfg.core.datastructures.basic_block'
KEYS = 'all(self.graph[k].name == k for k in self.graph)'

register(Contract(
    qual=SC + ':SCFG.add_block', params={'self': 'SCFG', 'basic_block': 'block'},
    modifies=['self.graph'],
    ensures={'def': 'self.graph == updated(old.self.graph, basic_block.name, basic_block)'},
    properties=['C14', 'C05', 'C18'],
))

register(Contract(
    qual=SC + ':SCFG.remove_blocks', params={'self': 'SCFG', 'names': 'set[name]'},
    modifies=['self.graph'],
    requires={'present': 'all(n in self.graph for n in names)'},
    ensures={'def': 'self.graph == without(old.self.graph, names)'},
    loops={'for name in names': LoopSpec(inv={'removed': 'self.graph == without(old.self.graph, _done)'})},
    properties=['C14', 'C05'],
))

# value-table maintenance of branching synthetic blocks (C06, C14, C02)
NT, OT = 'new_branch_value_table', 'self.branch_value_table'
FOLLOW = ('(%s[{k}] == %s[{k}]) if %s[{k}] in jump_targets else (%s[{k}] in jump_targets and %s[{k}] not in self._jump_targets)'
          % (NT, OT, OT, NT, NT))
register(Contract(
    qual=BB + ':SyntheticBranch.replace_jump_targets',
    params={'self': 'block', 'jump_targets': 'tuple[name]'}, returns='block', pure=True,
    locals={'new_branch_value_table': 'dict[int,name]', 'diff': 'set[name]'},
    requires={
        'is-branch': 'isinstance(self, SyntheticBranch)',
        # what the callers establish: targets renamed position-wise (any number of them), or several
        # targets merged into one new successor (insert_block with more than one target in S)
        'shape': 'retarget_shape(self._jump_targets, jump_targets)',
        'distinct-old': 'distinct(self._jump_targets)',
        'table': 'table_ok(self)',
    },
    ensures={
        'block': 'result == replace(self, _jump_targets=jump_targets, branch_value_table=result.branch_value_table)',
        'renamed': 'renamed_table(self, result)',
        'table': 'table_ok(result)',
    },
    loops={
        'for target, new_target in zip(self._jump_targets, jump_targets)': LoopSpec(inv={
            'keys': 'all(any(self.branch_value_table[k] == self._jump_targets[m] for m in range(_i)) for k in new_branch_value_table)',
            'keys-in': 'all(k in self.branch_value_table for k in new_branch_value_table)',
            'keys-all': 'all(k in new_branch_value_table for k in self.branch_value_table'
                        ' if any(self.branch_value_table[k] == self._jump_targets[m] for m in range(_i)))',
            'vals': 'all(all(implies(self.branch_value_table[k] == self._jump_targets[m], new_branch_value_table[k] == jump_targets[m])'
                    ' for m in range(_i)) for k in new_branch_value_table)',
        }),
        'for k, v in old_branch_value_table.items()': LoopSpec(done='_dk', inv={
            'keys': 'all(any(self.branch_value_table[k2] == self._jump_targets[m] for m in range(_i + 1)) for k2 in new_branch_value_table)',
            'keys-in': 'all(k2 in self.branch_value_table for k2 in new_branch_value_table)',
            'keys-all': 'all(k2 in new_branch_value_table for k2 in self.branch_value_table'
                        ' if any(self.branch_value_table[k2] == self._jump_targets[m] for m in range(_i))'
                        ' or (k2 in _dk and self.branch_value_table[k2] == self._jump_targets[_i]))',
            'vals': 'all(all(implies(self.branch_value_table[k2] == self._jump_targets[m], new_branch_value_table[k2] == jump_targets[m])'
                    ' for m in range(_i + 1)) for k2 in new_branch_value_table)',
        }),
        # ---- the merging path (lengths differ)
        'for target in self._jump_targets': LoopSpec(index='_m', inv={
            'keys-in': 'all(k in self.branch_value_table for k in new_branch_value_table)',
            'keys-from': 'all(any(self.branch_value_table[k] == self._jump_targets[m] for m in range(_m)) for k in new_branch_value_table)',
            'keys-all': 'all(k in new_branch_value_table for k in self.branch_value_table'
                        ' if any(self.branch_value_table[k] == self._jump_targets[m] for m in range(_m)))',
            'vals': 'all(%s for k in new_branch_value_table)' % FOLLOW.format(k='k'),
        }),
        'for k, v in old_branch_value_table.items()#1': LoopSpec(done='_dk', inv={
            'keys-in': 'all(k2 in self.branch_value_table for k2 in new_branch_value_table)',
            'keys-from': 'all(any(self.branch_value_table[k2] == self._jump_targets[m] for m in range(_m + 1)) for k2 in new_branch_value_table)',
            'keys-all': 'all(k2 in new_branch_value_table for k2 in self.branch_value_table'
                        ' if any(self.branch_value_table[k2] == self._jump_targets[m] for m in range(_m))'
                        ' or (k2 in _dk and self.branch_value_table[k2] == self._jump_targets[_m]))',
            'vals': 'all(%s for k2 in new_branch_value_table)' % FOLLOW.format(k='k2'),
        }),
        'for k, v in old_branch_value_table.items()#2': LoopSpec(done='_dk', inv={
            'keys-in': 'all(k2 in self.branch_value_table for k2 in new_branch_value_table)',
            'keys-from': 'all(any(self.branch_value_table[k2] == self._jump_targets[m] for m in range(_m + 1)) for k2 in new_branch_value_table)',
            'keys-all': 'all(k2 in new_branch_value_table for k2 in self.branch_value_table'
                        ' if any(self.branch_value_table[k2] == self._jump_targets[m] for m in range(_m))'
                        ' or (k2 in _dk and self.branch_value_table[k2] == self._jump_targets[_m]))',
            'vals': 'all(%s for k2 in new_branch_value_table)' % FOLLOW.format(k='k2'),
        }),
    },
    properties=['C02', 'C06', 'C14'], gen='branch_replace',
))

# value mode does not model the inside of regions: the effect of _sync_exiting on the sub-graph of a
# region predecessor is outside the proved part (hierarchy clause: bounded stand-in, C04/C01 pass)

IB_PARAMS = {'self': 'SCFG', 'new_name': 'name', 'predecessors': 'list[name]', 'successors': 'list[name]'}
OB, NB = 'old.self.graph[p]', 'self.graph[p]'
RR_ARGS = '(%s._jump_targets, %s._jump_targets, new_name, set(successors))' % (OB, NB)


def insert_block_clauses(btype):
    requires = {
        'keys': KEYS,
        'fresh': 'new_name not in self.graph',
        'new-not-succ': 'new_name not in successors',
        'preds-in': 'all(p in self.graph for p in predecessors)',
        'preds-distinct': 'distinct(predecessors)',
        'targets-distinct': 'all(distinct(self.graph[p]._jump_targets) for p in predecessors)',
        'new-unused': 'all(new_name not in self.graph[p]._jump_targets for p in predecessors)',
        # a branching synthetic predecessor keeps a table entry per successor: it can have targets renamed or
        # merged into the new block, but nothing can be appended to it (class invariant of SyntheticBranch, C06)
        'branch-preds': 'all(len(successors) > 0 and table_ok(self.graph[p])'
                        ' for p in predecessors if isinstance(self.graph[p], SyntheticBranch))',
    }
    ensures = {
        'dom': 'set(self.graph) == set(old.self.graph) | {new_name}',
        'new-block': 'self.graph[new_name] == %s(name=new_name, _jump_targets=tuple(successors), backedges=())' % btype,
        'others': 'all(self.graph[k] == old.self.graph[k] for k in old.self.graph if k not in predecessors)',
        'keys': KEYS,
    }
    for cn, body in per_pred_clauses().items():
        ensures['pred-' + cn] = 'all(%s for p in predecessors)' % body
    return requires, ensures


def per_pred_clauses():
    return {
        'plain': 'ib_plain(%s, %s)' % (OB, NB),
        'branch': 'ib_branch(%s, %s)' % (OB, NB),
        'branch-renamed': 'ib_branch_renamed(%s, %s)' % (OB, NB),
        'branch-table': 'ib_branch_table(%s, %s)' % (OB, NB),
        'distinct': 'distinct(%s._jump_targets)' % NB,
        'sub': 'implies(len(successors) > 0, rr_sub%s)' % RR_ARGS,
        'kept': 'implies(len(successors) > 0, rr_kept%s)' % RR_ARGS,
        'new': 'implies(len(successors) > 0, rr_new%s)' % RR_ARGS,
        'order': 'implies(len(successors) > 0, rr_order%s)' % RR_ARGS,
        'pos': 'implies(len(successors) > 0, rr_pos%s)' % RR_ARGS,
        'append': 'implies(len(successors) == 0, appended(%s._jump_targets, %s._jump_targets, new_name))' % (OB, NB),
    }


def insert_block_loops():
    outer = {
        'dom': 'set(self.graph) == set(old.self.graph) | {new_name}',
        'new-block': 'self.graph[new_name] == block_type(name=new_name, _jump_targets=tuple(successors), backedges=())',
        'untouched': 'all(self.graph[k] == old.self.graph[k] for k in old.self.graph if k not in _i_seen)',
        'keys': KEYS,
    }
    for cn, body in per_pred_clauses().items():
        outer['pred-' + cn] = 'all(%s for p in _i_seen)' % body
    SD = '_j_seen'
    a = '(entry.jt, jt, new_name, %s)' % SD
    inner = {
        'sub': 'rr_sub' + a, 'kept': 'rr_kept' + a, 'new': 'rr_new' + a, 'order': 'rr_order' + a, 'pos': 'rr_pos' + a,
        'distinct': 'distinct(jt)',
    }
    return {
        'for name in predecessors': LoopSpec(inv=outer, frame=['untouched']),
        'for s in successors': LoopSpec(index='_j', inv=inner),
    }


# proof hints: for the outer inductive step of clause pred-X keep, among the labelled hypotheses (invariant
# clauses and cut facts), only X's own cut fact and invariant clause plus the structural ones
CORE = ['block', 'nb-name', 'keys', 'dom']
IB_HINTS = {}
for _c, _cuts in (('plain', []), ('branch', ['nb-branch']), ('branch-renamed', ['nb-renamed']), ('branch-table', ['nb-table']),
                  ('distinct', ['distinct']), ('sub', ['sub']), ('kept', ['kept']), ('new', ['new']), ('order', ['order']),
                  ('pos', ['pos']), ('append', ['append'])):
    IB_HINTS['pred-' + _c] = CORE + _cuts + ['pred-' + _c]
for _c in ('dom', 'new-block', 'untouched', 'keys'):
    IB_HINTS[_c] = CORE + ['new-block', 'untouched', _c]


def insert_block_cuts():
    a = '(old.self.graph[name]._jump_targets, jt, new_name, set(successors))'
    return {'new_block = block.replace_jump_targets(': {
        'block': 'block == old.self.graph[name]',
        'sub': 'implies(len(successors) > 0, rr_sub%s)' % a,
        'kept': 'implies(len(successors) > 0, rr_kept%s)' % a,
        'new': 'implies(len(successors) > 0, rr_new%s)' % a,
        'order': 'implies(len(successors) > 0, rr_order%s)' % a,
        'pos': 'implies(len(successors) > 0, rr_pos%s)' % a,
        'distinct': 'distinct(jt)',
        'append': 'implies(len(successors) == 0, appended(old.self.graph[name]._jump_targets, jt, new_name))',
    }, 'self.add_block(new_block)#1': {
        'nb-name': 'new_block.name == name',
        'nb-branch': 'ib_branch(old.self.graph[name], new_block)',
        'nb-renamed': 'ib_branch_renamed(old.self.graph[name], new_block)',
        'nb-table': 'ib_branch_table(old.self.graph[name], new_block)',
    }}


_req, _ens = insert_block_clauses('block_type')
_req['synthetic-type'] = 'issubclass_synthetic(block_type)'
register(Contract(
    qual=SC + ':SCFG.insert_block', params=dict(IB_PARAMS, block_type='cls'), modifies=['self.graph'],
    locals={'jt': 'list[name]'},
    requires=_req, ensures=_ens, loops=insert_block_loops(), cuts=insert_block_cuts(), frame_clauses=['others'], slices=6,
    hints=IB_HINTS,
    # R3 (DESIGN 1): a predecessor with a declared back edge loses that arc; proved on the complement
    known={'R3': 'any(len(self.graph[p].backedges) != 0 for p in predecessors)'},
    properties=['C14', 'C05', 'C04'], gen='insert',
))

for meth, cls in (('insert_SyntheticExit', 'SyntheticExit'), ('insert_SyntheticTail', 'SyntheticTail'),
                  ('insert_SyntheticReturn', 'SyntheticReturn'), ('insert_SyntheticFill', 'SyntheticFill')):
    _req, _ens = insert_block_clauses(cls)
    register(Contract(
        qual=SC + ':SCFG.' + meth, params=dict(IB_PARAMS), modifies=['self.graph'],
        requires=_req, ensures=_ens, frame_clauses=['others'],
        hints={cn: [cn] for cn in _ens},     # a wrapper's clause follows from the same clause of insert_block
        known={'R3': 'any(len(self.graph[p].backedges) != 0 for p in predecessors)'},
        properties=['C14', 'C05'], gen='insert',
    ))

# ---- insert_block_and_control_blocks (C14, C06, C12, C18)
ARCS = '[(p, s) for p in predecessors for s in sorted(set(old.self.graph[p].jump_targets) & set(successors))]'
A0 = 'get(old.self.name_gen.kinds, "synth_asign", 0)'
A0N = 'get(self.name_gen.kinds, "synth_asign", 0)'
VAR = 'var_name("control", get(old.self.name_gen.kinds, "control", 0))'
OJ, NJ = 'old.self.graph[p]._jump_targets', 'self.graph[p]._jump_targets'


def ibc_pred_clauses(table, graph_new='self.graph'):
    """per-predecessor clauses (p ranges over the processed predecessors); `table` is the value table built so far"""
    return {
        'pred-plain': 'ib_plain(old.self.graph[p], self.graph[p])',
        'pred-branch': 'ib_branch(old.self.graph[p], self.graph[p])',
        'pred-branch-renamed': 'ib_branch_renamed(old.self.graph[p], self.graph[p])',
        'pred-branch-table': 'ib_branch_table(old.self.graph[p], self.graph[p])',
        'pred-len': 'len(%s) == len(%s)' % (NJ, OJ),
        'pred-kept': 'all(implies(%s[i] not in successors, %s[i] == %s[i]) for i in range(len(%s)))' % (OJ, NJ, OJ, OJ),
        # every re-routed arc has its own assignment block, whose constant the head maps back to the arc's original target
        'pred-rerouted-fresh': 'all(implies(%s[i] in successors, %s[i] not in old.self.graph and %s[i] != new_name and %s[i] in self.graph)'
                               ' for i in range(len(%s)))' % (OJ, NJ, NJ, NJ, OJ),
        'pred-rerouted-assign': 'all(implies(%s[i] in successors, is_assign_to(self.graph[%s[i]], %s[i], new_name, %s)) for i in range(len(%s)))'
                                % (OJ, NJ, NJ, VAR, OJ),
        'pred-rerouted-table': 'all(implies(%s[i] in successors, self.graph[%s[i]].variable_assignment[%s] in %s'
                               ' and %s[self.graph[%s[i]].variable_assignment[%s]] == %s[i]) for i in range(len(%s)))'
                               % (OJ, NJ, VAR, table, table, NJ, VAR, OJ, OJ),
    }


def ibc_global_clauses(table, count):
    """clauses about the whole state; `count` is the number of arcs re-routed so far"""
    return {
        'kinds-assign': '%s == %s + %s and %s >= 0' % (A0N, A0, count, count),
        'kinds-control': 'get(self.name_gen.kinds, "control", 0) == get(old.self.name_gen.kinds, "control", 0) + 1',
        'kinds-nonneg': 'all(self.name_gen.kinds[k] >= 0 for k in self.name_gen.kinds)',
        'table-keys': 'all(0 <= k and k < %s for k in %s) and all(k in %s for k in range(%s))' % (count, table, table, count),
        'table-vals': 'all(%s[k] in successors for k in %s)' % (table, table),
        'dom-old': 'all(k in self.graph for k in old.self.graph)',
        'assign-blocks': 'all(implies(k not in old.self.graph and k != new_name, is_generated(k, "synth_asign") and %s <= gen_index(k) and gen_index(k) < %s + %s'
                         ' and is_assign_to(self.graph[k], k, new_name, %s) and self.graph[k].variable_assignment[%s] == gen_index(k) - %s)'
                         ' for k in self.graph)' % (A0, A0, count, VAR, VAR, A0),
        'keys': KEYS,
    }


_ens = {}
_ens['head'] = ('type(self.graph[new_name]) is SyntheticHead and self.graph[new_name].name == new_name and self.graph[new_name]._jump_targets == tuple(successors)'
                ' and len(self.graph[new_name].backedges) == 0 and self.graph[new_name].variable == %s' % VAR)
_ens['head-table'] = 'table_ok(self.graph[new_name])'
_ens['others'] = 'all(self.graph[k] == old.self.graph[k] for k in old.self.graph if k not in predecessors)'
for _k, _v in ibc_pred_clauses('self.graph[new_name].branch_value_table').items():
    _ens[_k] = 'all(%s for p in predecessors)' % _v
for _k, _v in ibc_global_clauses('self.graph[new_name].branch_value_table', '(%s - %s)' % (A0N, A0)).items():
    if _k not in ('kinds-assign',):
        _ens[_k] = _v

_outer = {'untouched': 'all(self.graph[k] == old.self.graph[k] for k in old.self.graph if k not in _i_seen)',
          'new-absent': 'new_name not in self.graph',
          'var': 'branch_variable == %s' % VAR}
for _k, _v in ibc_pred_clauses('branch_value_table').items():
    _outer[_k] = 'all(%s for p in _i_seen)' % _v
_outer.update(ibc_global_clauses('branch_value_table', 'branch_variable_value'))
EJ = 'entry.jt'
_inner = dict(_outer)
_inner.update({
    'block': 'block == old.self.graph[name] and name in self.graph',
    'jt-len': 'len(jt) == len(%s)' % EJ,
    'jt-kept': 'all(implies(%s[i] not in _j_seen, jt[i] == %s[i]) for i in range(len(%s)))' % (EJ, EJ, EJ),
    'jt-rerouted-fresh': 'all(implies(%s[i] in _j_seen, jt[i] not in old.self.graph and jt[i] != new_name and jt[i] in self.graph) for i in range(len(%s)))' % (EJ, EJ),
    'jt-rerouted-assign': 'all(implies(%s[i] in _j_seen, is_assign_to(self.graph[jt[i]], jt[i], new_name, %s)) for i in range(len(%s)))' % (EJ, VAR, EJ),
    'jt-rerouted-table': 'all(implies(%s[i] in _j_seen, self.graph[jt[i]].variable_assignment[%s] in branch_value_table'
                         ' and branch_value_table[self.graph[jt[i]].variable_assignment[%s]] == %s[i]) for i in range(len(%s)))' % (EJ, VAR, VAR, EJ, EJ),
})

_base = ['table-keys', 'assign-blocks', 'kinds-assign', 'kinds-nonneg', 'dom-old', 'keys', 'pred-len', 'untouched', 'def', 'name', 'kinds', 'var', 'new-absent',
         'block', 'jt-kept', 'jt-len']
IBC_HINTS = {
    'jt.index(s)': ['jt-kept', 'jt-len', 'block'],
    'table-vals': ['table-vals', 'table-keys'],
    'jt-kept': ['jt-kept', 'jt-len'],
}
for _c in ('fresh', 'assign', 'table'):
    IBC_HINTS['jt-rerouted-' + _c] = _base + ['jt-rerouted-' + _c, 'jt-rerouted-fresh']
    IBC_HINTS['pred-rerouted-' + _c] = _base + ['pred-rerouted-' + _c, 'pred-rerouted-fresh', 'jt-rerouted-' + _c, 'jt-rerouted-fresh']

register(Contract(
    qual=SC + ':SCFG.insert_block_and_control_blocks', params=dict(IB_PARAMS), modifies=['self.graph', 'self.name_gen.kinds'],
    gen='insert_ctrl', locals={'branch_value_table': 'dict[int,name]', 'variable_assignment': 'dict[name,int]', 'jt': 'list[name]'},
    requires={
        'keys': KEYS,
        'fresh': 'new_name not in self.graph',
        'new-not-generated': 'not (is_generated(new_name, "synth_asign") and gen_index(new_name) >= get(self.name_gen.kinds, "synth_asign", 0))',
        'preds-in': 'all(p in self.graph for p in predecessors)',
        'preds-distinct': 'distinct(predecessors)',
        'succs-distinct': 'distinct(successors)',
        'targets-distinct': 'all(distinct(self.graph[p]._jump_targets) for p in predecessors)',
        'succs-targeted': 'all(any(s in self.graph[p].jump_targets for p in predecessors) for s in successors)',
        'kinds-nonneg': 'all(self.name_gen.kinds[k] >= 0 for k in self.name_gen.kinds)',
        # NG_inv for assignment-block names: no block of the graph already carries a name the generator is about to hand out
        'generator-fresh': 'all(not (is_generated(k, "synth_asign") and gen_index(k) >= get(self.name_gen.kinds, "synth_asign", 0)) for k in self.graph)',
        'branch-preds': 'all(table_ok(self.graph[p]) for p in predecessors if isinstance(self.graph[p], SyntheticBranch))',
        # ... and no predecessor already jumps to such a name
        'targets-not-generated': 'all(all(not (is_generated(t, "synth_asign") and gen_index(t) >= get(self.name_gen.kinds, "synth_asign", 0))'
                                 ' for t in self.graph[p]._jump_targets) for p in predecessors)',
    },
    known={'R3': 'any(len(self.graph[p].backedges) != 0 for p in predecessors)'},
    ensures=_ens,
    runtime_ensures={
        # exact generated names and constants (functional => independent of set iteration order, C12)
        'table-exact': 'self.graph[new_name].branch_value_table == {k: s for k, (p, s) in enumerate(%s)}' % ARCS,
        'assignments-exact': 'all(self.graph[block_name("synth_asign", %s + k)] == SyntheticAssignment(block_name("synth_asign", %s + k), (new_name,), (),'
                             ' {%s: k}) for k in range(len(%s)))' % (A0, A0, VAR, ARCS),
        'preds-exact': 'all(self.graph[p]._jump_targets == tuple(block_name("synth_asign", %s + (%s).index((p, t))) if (p, t) in %s else t'
                       ' for t in old.self.graph[p]._jump_targets) for p in predecessors)' % (A0, ARCS, ARCS),
        'dom-exact': 'set(self.graph) == set(old.self.graph) | {new_name} | {block_name("synth_asign", %s + k) for k in range(len(%s))}' % (A0, ARCS),
    },
    loops={
        'for name in predecessors': LoopSpec(inv=_outer, frame=['untouched']),
        'for s in sorted(set(jt).intersection(successors))': LoopSpec(index='_j', inv=_inner, frame=['untouched']),
    },
    frame_clauses=['others'],
    hints=IBC_HINTS, slices=8,
    properties=['C14', 'C06', 'C12', 'C18'],
    note='exact generated names and constants are checked at run time (runtime_ensures); the proved clauses state them up to the order of hand-out',
))

EXITS = '{n for n in old.self.graph if old.self.graph[n].is_exiting}'
RNAME = 'block_name("synth_return", get(old.self.name_gen.kinds, "synth_return", 0))'
register(Contract(
    qual=SC + ':SCFG.join_returns', params={'self': 'SCFG'}, modifies=['self.graph', 'self.name_gen.kinds'],
    requires={'keys': KEYS,
              'generator-fresh': 'block_name("synth_return", get(self.name_gen.kinds, "synth_return", 0)) not in self.graph',
              # a branching synthetic block always has a successor per table entry: it is never an exit
              'exits-not-branching': 'all(not isinstance(self.graph[n], SyntheticBranch) for n in self.graph if self.graph[n].is_exiting)'},
    known={'R3': 'any(len(b.backedges) != 0 for b in self.graph.values() if b.is_exiting)'},
    ensures={
        'noop': 'implies(card(%s) <= 1, self.graph == old.self.graph and self.name_gen.kinds == old.self.name_gen.kinds)' % EXITS,
        'dom': 'implies(card(%s) > 1, set(self.graph) == set(old.self.graph) | {%s})' % (EXITS, RNAME),
        'return-block': 'implies(card(%s) > 1, self.graph[%s] == SyntheticReturn(name=%s, _jump_targets=(), backedges=()))' % (EXITS, RNAME, RNAME),
        'former-exits': 'implies(card(%s) > 1, all(appended(old.self.graph[n]._jump_targets, self.graph[n]._jump_targets, %s)'
                        ' and ib_plain(old.self.graph[n], self.graph[n]) for n in %s))' % (EXITS, RNAME, EXITS),
        'others': 'implies(card(%s) > 1, all(self.graph[n] == old.self.graph[n] for n in old.self.graph if n not in %s))' % (EXITS, EXITS),
        # exactly one exit afterwards: the new block is one, no former exit and no other old block is (with `dom`)
        'exit-new': 'implies(card(%s) > 1, self.graph[%s].is_exiting)' % (EXITS, RNAME),
        'former-not-exit': 'implies(card(%s) > 1, all(not self.graph[n].is_exiting for n in %s))' % (EXITS, EXITS),
        'others-not-exit': 'implies(card(%s) > 1, all(not self.graph[n].is_exiting for n in old.self.graph if n not in %s))' % (EXITS, EXITS),
        'kinds': 'implies(card(%s) > 1, self.name_gen.kinds == updated(old.self.name_gen.kinds, "synth_return", get(old.self.name_gen.kinds, "synth_return", 0) + 1))' % EXITS,
    },
    hints={'exit-new': ['new-block'], 'former-not-exit': ['pred-plain', 'pred-append', 'dom'], 'others-not-exit': ['others', 'dom'],
           'noop': [], 'former-exits': ['pred-plain', 'pred-append', 'dom'], 'others': ['others', 'dom'],
           'dom': ['dom'], 'return-block': ['new-block'], 'kinds': []},
    properties=['C14', 'C05'],
))

TNAME = 'block_name("synth_tail", get(old.self.name_gen.kinds, "synth_tail", 0))'
ENAME = 'block_name("synth_exit", get(old.self.name_gen.kinds, "synth_exit", 0))'
register(Contract(
    qual=SC + ':SCFG.join_tails_and_exits', params={'self': 'SCFG', 'tails': 'list[name]', 'exits': 'list[name]'},
    returns='pair[name,name]', modifies=['self.graph', 'self.name_gen.kinds'], gen='tails_exits',
    requires={'keys': KEYS, 'nonempty': 'len(tails) >= 1 and len(exits) >= 1',
              'tails-in': 'all(t in self.graph for t in tails)', 'distinct': 'distinct(tails) and distinct(exits)',
              'targets-distinct': 'all(distinct(self.graph[t]._jump_targets) for t in tails)',
              'kinds-nonneg': 'all(self.name_gen.kinds[k] >= 0 for k in self.name_gen.kinds)',
              # NG_inv for the two names this call may hand out: not yet used as a block, a target or an exit
              'fresh-tail': 'block_name("synth_tail", get(self.name_gen.kinds, "synth_tail", 0)) not in self.graph and block_name("synth_tail", get(self.name_gen.kinds, "synth_tail", 0)) not in exits',
              'fresh-tail-targets': 'all(block_name("synth_tail", get(self.name_gen.kinds, "synth_tail", 0)) not in self.graph[t]._jump_targets for t in tails)',
              'fresh-exit': 'block_name("synth_exit", get(self.name_gen.kinds, "synth_exit", 0)) not in self.graph and block_name("synth_exit", get(self.name_gen.kinds, "synth_exit", 0)) not in exits',
              'fresh-exit-targets': 'all(block_name("synth_exit", get(self.name_gen.kinds, "synth_exit", 0)) not in self.graph[t]._jump_targets for t in tails)',
              'not-exits': 'all(t not in exits for t in tails)',
              'branch-tails': 'all(table_ok(self.graph[t]) for t in tails if isinstance(self.graph[t], SyntheticBranch))'},
    known={'R3': 'any(len(self.graph[t].backedges) != 0 for t in tails)',
           'R13': 'len(tails) == 1 and len(exits) > 2'},
    ensures={
        'noop': 'implies(len(tails) == 1 and len(exits) == 1, result == (tails[0], exits[0]) and self.graph == old.self.graph'
                ' and self.name_gen.kinds == old.self.name_gen.kinds)',
        'result-tail': 'implies(len(tails) >= 2, result[0] == %s and type(self.graph[result[0]]) is SyntheticTail)' % TNAME,
        'result-tail-solo': 'implies(len(tails) == 1, result[0] == tails[0])',
        'result-exit': 'implies(len(exits) >= 2, result[1] == %s and type(self.graph[result[1]]) is SyntheticExit'
                       ' and self.graph[result[1]]._jump_targets == tuple(exits))' % ENAME,
        'result-exit-solo': 'implies(len(exits) == 1, result[1] == exits[0])',
        # every former arc from a tail into the exits now runs through the returned tail ...
        'tails-rerouted': 'implies(len(tails) >= 2, all(rr_sub(old.self.graph[t]._jump_targets, self.graph[t]._jump_targets, result[0], set(exits))'
                          ' and rr_new(old.self.graph[t]._jump_targets, self.graph[t]._jump_targets, result[0], set(exits)) for t in tails))',
        # ... and from there to the returned exit
        'tail-to-exit': 'implies(len(tails) >= 2, self.graph[result[0]]._jump_targets == (result[1],))',
        # a single tail with several exits: its arcs into the exits now run through the returned exit
        'solo-tail-rerouted': 'implies(len(tails) == 1 and len(exits) >= 2,'
                              ' rr_sub(old.self.graph[tails[0]]._jump_targets, self.graph[tails[0]]._jump_targets, result[1], set(exits))'
                              ' and rr_new(old.self.graph[tails[0]]._jump_targets, self.graph[tails[0]]._jump_targets, result[1], set(exits)))',
        'others': 'all(self.graph[b] == old.self.graph[b] for b in old.self.graph if b not in tails)',
    },
    frame_clauses=['others'],
    hints={'result-tail': ['new-block', 'pred-plain', 'dom'], 'tail-to-exit': ['new-block', 'pred-sub', 'pred-new', 'pred-distinct', 'pred-plain', 'dom'],
           'result-exit': ['new-block', 'others', 'dom'], 'tails-rerouted': ['pred-sub', 'pred-new', 'others', 'dom', 'new-block'],
           'solo-tail-rerouted': ['pred-sub', 'pred-new', 'dom'], 'others': ['others', 'dom']},
    properties=['C14'],
))
