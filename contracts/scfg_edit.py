"""Contracts for the edit primitives of SCFG (C14, C05, C04 value level) — value mode."""
from pyvc.contract import Contract, LoopSpec, register

SC = 'numba_scfg.core.datastructures.scfg'
BB = 'numba_scfg.core.datastructures.basic_block'
KEYS = 'all(self.graph[k].name == k for k in self.graph)'

register(Contract(
    qual=SC + ':SCFG.add_block', params={'self': 'SCFG', 'basic_block': 'block'},
    modifies=['self.graph'],
    ensures={'def': 'self.graph == updated(old.self.graph, basic_block.name, basic_block)'},
    properties=['C14', 'C05', 'C18'],
))

register(Contract(
    qual=SC + ':SCFG.remove_blocks', params={'self': 'SCFG', 'names': 'set[name]'},
    modifies=['self.graph'],
    requires={'present': 'all(n in self.graph for n in names)'},
    ensures={'def': 'self.graph == without(old.self.graph, names)'},
    loops={'for name in names': LoopSpec(inv={'removed': 'self.graph == without(old.self.graph, _done)'})},
    properties=['C14', 'C05'],
))

# value-table maintenance of branching synthetic blocks (C06, C14, C02)
NT, OT = 'new_branch_value_table', 'self.branch_value_table'
FOLLOW = ('(%s[{k}] == %s[{k}]) if %s[{k}] in jump_targets else (%s[{k}] in jump_targets and %s[{k}] not in self._jump_targets)'
          % (NT, OT, OT, NT, NT))
register(Contract(
    qual=BB + ':SyntheticBranch.replace_jump_targets',
    params={'self': 'block', 'jump_targets': 'tuple[name]'}, returns='block', pure=True,
    locals={'new_branch_value_table': 'dict[int,name]', 'diff': 'set[name]'},
    requires={
        'is-branch': 'isinstance(self, SyntheticBranch)',
        # what the callers establish: targets renamed position-wise (any number of them), or several
        # targets merged into one new successor (insert_block with more than one target in S)
        'shape': 'retarget_shape(self._jump_targets, jump_targets)',
        'distinct-old': 'distinct(self._jump_targets)',
        'table': 'table_ok(self)',
    },
    ensures={
        'block': 'result == replace(self, _jump_targets=jump_targets, branch_value_table=result.branch_value_table)',
        'renamed': 'renamed_table(self, result)',
        'table': 'table_ok(result)',
    },
    loops={
        'for target, new_target in zip(self._jump_targets, jump_targets)': LoopSpec(inv={
            'keys': 'all(any(self.branch_value_table[k] == self._jump_targets[m] for m in range(_i)) for k in new_branch_value_table)',
            'keys-in': 'all(k in self.branch_value_table for k in new_branch_value_table)',
            'keys-all': 'all(k in new_branch_value_table for k in self.branch_value_table'
                        ' if any(self.branch_value_table[k] == self._jump_targets[m] for m in range(_i)))',
            'vals': 'all(all(implies(self.branch_value_table[k] == self._jump_targets[m], new_branch_value_table[k] == jump_targets[m])'
                    ' for m in range(_i)) for k in new_branch_value_table)',
        }),
        'for k, v in old_branch_value_table.items()': LoopSpec(done='_dk', inv={
            'keys': 'all(any(self.branch_value_table[k2] == self._jump_targets[m] for m in range(_i + 1)) for k2 in new_branch_value_table)',
            'keys-in': 'all(k2 in self.branch_value_table for k2 in new_branch_value_table)',
            'keys-all': 'all(k2 in new_branch_value_table for k2 in self.branch_value_table'
                        ' if any(self.branch_value_table[k2] == self._jump_targets[m] for m in range(_i))'
                        ' or (k2 in _dk and self.branch_value_table[k2] == self._jump_targets[_i]))',
            'vals': 'all(all(implies(self.branch_value_table[k2] == self._jump_targets[m], new_branch_value_table[k2] == jump_targets[m])'
                    ' for m in range(_i + 1)) for k2 in new_branch_value_table)',
        }),
        # ---- the merging path (lengths differ)
        'for target in self._jump_targets': LoopSpec(index='_m', inv={
            'keys-in': 'all(k in self.branch_value_table for k in new_branch_value_table)',
            'keys-from': 'all(any(self.branch_value_table[k] == self._jump_targets[m] for m in range(_m)) for k in new_branch_value_table)',
            'keys-all': 'all(k in new_branch_value_table for k in self.branch_value_table'
                        ' if any(self.branch_value_table[k] == self._jump_targets[m] for m in range(_m)))',
            'vals': 'all(%s for k in new_branch_value_table)' % FOLLOW.format(k='k'),
        }),
        'for k, v in old_branch_value_table.items()#1': LoopSpec(done='_dk', inv={
            'keys-in': 'all(k2 in self.branch_value_table for k2 in new_branch_value_table)',
            'keys-from': 'all(any(self.branch_value_table[k2] == self._jump_targets[m] for m in range(_m + 1)) for k2 in new_branch_value_table)',
            'keys-all': 'all(k2 in new_branch_value_table for k2 in self.branch_value_table'
                        ' if any(self.branch_value_table[k2] == self._jump_targets[m] for m in range(_m))'
                        ' or (k2 in _dk and self.branch_value_table[k2] == self._jump_targets[_m]))',
            'vals': 'all(%s for k2 in new_branch_value_table)' % FOLLOW.format(k='k2'),
        }),
        'for k, v in old_branch_value_table.items()#2': LoopSpec(done='_dk', inv={
            'keys-in': 'all(k2 in self.branch_value_table for k2 in new_branch_value_table)',
            'keys-from': 'all(any(self.branch_value_table[k2] == self._jump_targets[m] for m in range(_m + 1)) for k2 in new_branch_value_table)',
            'keys-all': 'all(k2 in new_branch_value_table for k2 in self.branch_value_table'
                        ' if any(self.branch_value_table[k2] == self._jump_targets[m] for m in range(_m))'
                        ' or (k2 in _dk and self.branch_value_table[k2] == self._jump_targets[_m]))',
            'vals': 'all(%s for k2 in new_branch_value_table)' % FOLLOW.format(k='k2'),
        }),
    },
    properties=['C02', 'C06', 'C14'], gen='branch_replace',
))

# value mode does not model the inside of regions: the effect of _sync_exiting on the sub-graph of a
# region predecessor is outside the proved part (hierarchy clause: bounded stand-in, C04/C01 pass)
register(Contract(
    qual=SC + ':SCFG._sync_exiting', params={'block': 'block'}, modifies=[], trusted=True, runtime=False,
    ensures={}, properties=[],
    note='assumed frame: changes nothing at the level of the caller (it only rewrites exiting blocks inside region sub-graphs)',
))

IB_PARAMS = {'self': 'SCFG', 'new_name': 'name', 'predecessors': 'list[name]', 'successors': 'list[name]'}
OB, NB = 'old.self.graph[p]', 'self.graph[p]'
RR_ARGS = '(%s._jump_targets, %s._jump_targets, new_name, set(successors))' % (OB, NB)


def insert_block_clauses(btype):
    requires = {
        'keys': KEYS,
        'fresh': 'new_name not in self.graph',
        'new-not-succ': 'new_name not in successors',
        'preds-in': 'all(p in self.graph for p in predecessors)',
        'preds-distinct': 'distinct(predecessors)',
        'targets-distinct': 'all(distinct(self.graph[p]._jump_targets) for p in predecessors)',
        'new-unused': 'all(new_name not in self.graph[p]._jump_targets for p in predecessors)',
        # a branching synthetic predecessor keeps a table entry per successor: it can have targets renamed or
        # merged into the new block, but nothing can be appended to it (class invariant of SyntheticBranch, C06)
        'branch-preds': 'all(len(successors) > 0 and table_ok(self.graph[p])'
                        ' for p in predecessors if isinstance(self.graph[p], SyntheticBranch))',
    }
    ensures = {
        'dom': 'set(self.graph) == set(old.self.graph) | {new_name}',
        'new-block': 'self.graph[new_name] == %s(name=new_name, _jump_targets=tuple(successors), backedges=())' % btype,
        'others': 'all(self.graph[k] == old.self.graph[k] for k in old.self.graph if k not in predecessors)',
        'keys': KEYS,
    }
    for cn, body in per_pred_clauses().items():
        ensures['pred-' + cn] = 'all(%s for p in predecessors)' % body
    return requires, ensures


def per_pred_clauses():
    return {
        'plain': 'ib_plain(%s, %s)' % (OB, NB),
        'branch': 'ib_branch(%s, %s)' % (OB, NB),
        'branch-renamed': 'ib_branch_renamed(%s, %s)' % (OB, NB),
        'branch-table': 'ib_branch_table(%s, %s)' % (OB, NB),
        'distinct': 'distinct(%s._jump_targets)' % NB,
        'sub': 'implies(len(successors) > 0, rr_sub%s)' % RR_ARGS,
        'kept': 'implies(len(successors) > 0, rr_kept%s)' % RR_ARGS,
        'new': 'implies(len(successors) > 0, rr_new%s)' % RR_ARGS,
        'order': 'implies(len(successors) > 0, rr_order%s)' % RR_ARGS,
        'pos': 'implies(len(successors) > 0, rr_pos%s)' % RR_ARGS,
        'append': 'implies(len(successors) == 0, appended(%s._jump_targets, %s._jump_targets, new_name))' % (OB, NB),
    }


def insert_block_loops():
    outer = {
        'dom': 'set(self.graph) == set(old.self.graph) | {new_name}',
        'new-block': 'self.graph[new_name] == block_type(name=new_name, _jump_targets=tuple(successors), backedges=())',
        'untouched': 'all(self.graph[k] == old.self.graph[k] for k in old.self.graph if k not in _i_seen)',
        'keys': KEYS,
    }
    for cn, body in per_pred_clauses().items():
        outer['pred-' + cn] = 'all(%s for p in _i_seen)' % body
    SD = '_j_seen'
    a = '(entry.jt, jt, new_name, %s)' % SD
    inner = {
        'sub': 'rr_sub' + a, 'kept': 'rr_kept' + a, 'new': 'rr_new' + a, 'order': 'rr_order' + a, 'pos': 'rr_pos' + a,
        'distinct': 'distinct(jt)',
    }
    return {
        'for name in predecessors': LoopSpec(inv=outer, frame=['untouched']),
        'for s in successors': LoopSpec(index='_j', inv=inner),
    }


# proof hints: for the outer inductive step of clause pred-X keep, among the labelled hypotheses (invariant
# clauses and cut facts), only X's own cut fact and invariant clause plus the structural ones
CORE = ['block', 'nb-name', 'keys', 'dom']
IB_HINTS = {}
for _c, _cuts in (('plain', []), ('branch', ['nb-branch']), ('branch-renamed', ['nb-renamed']), ('branch-table', ['nb-table']),
                  ('distinct', ['distinct']), ('sub', ['sub']), ('kept', ['kept']), ('new', ['new']), ('order', ['order']),
                  ('pos', ['pos']), ('append', ['append'])):
    IB_HINTS['pred-' + _c] = CORE + _cuts + ['pred-' + _c]
for _c in ('dom', 'new-block', 'untouched', 'keys'):
    IB_HINTS[_c] = CORE + ['new-block', 'untouched', _c]


def insert_block_cuts():
    a = '(old.self.graph[name]._jump_targets, jt, new_name, set(successors))'
    return {'new_block = block.replace_jump_targets(': {
        'block': 'block == old.self.graph[name]',
        'sub': 'implies(len(successors) > 0, rr_sub%s)' % a,
        'kept': 'implies(len(successors) > 0, rr_kept%s)' % a,
        'new': 'implies(len(successors) > 0, rr_new%s)' % a,
        'order': 'implies(len(successors) > 0, rr_order%s)' % a,
        'pos': 'implies(len(successors) > 0, rr_pos%s)' % a,
        'distinct': 'distinct(jt)',
        'append': 'implies(len(successors) == 0, appended(old.self.graph[name]._jump_targets, jt, new_name))',
    }, 'self.add_block(new_block)#1': {
        'nb-name': 'new_block.name == name',
        'nb-branch': 'ib_branch(old.self.graph[name], new_block)',
        'nb-renamed': 'ib_branch_renamed(old.self.graph[name], new_block)',
        'nb-table': 'ib_branch_table(old.self.graph[name], new_block)',
    }}


_req, _ens = insert_block_clauses('block_type')
_req['synthetic-type'] = 'issubclass_synthetic(block_type)'
register(Contract(
    qual=SC + ':SCFG.insert_block', params=dict(IB_PARAMS, block_type='cls'), modifies=['self.graph'],
    locals={'jt': 'list[name]'},
    requires=_req, ensures=_ens, loops=insert_block_loops(), cuts=insert_block_cuts(), frame_clauses=['others'],
    hints=IB_HINTS,
    # R3 (DESIGN 1): a predecessor with a declared back edge loses that arc; proved on the complement
    known={'R3': 'any(len(self.graph[p].backedges) != 0 for p in predecessors)'},
    properties=['C14', 'C05', 'C04'], gen='insert',
))

for meth, cls in (('insert_SyntheticExit', 'SyntheticExit'), ('insert_SyntheticTail', 'SyntheticTail'),
                  ('insert_SyntheticReturn', 'SyntheticReturn'), ('insert_SyntheticFill', 'SyntheticFill')):
    _req, _ens = insert_block_clauses(cls)
    register(Contract(
        qual=SC + ':SCFG.' + meth, params=dict(IB_PARAMS), modifies=['self.graph'],
        requires=_req, ensures=_ens, frame_clauses=['others'],
        hints={cn: [cn] for cn in _ens},     # a wrapper's clause follows from the same clause of insert_block
        known={'R3': 'any(len(self.graph[p].backedges) != 0 for p in predecessors)'},
        properties=['C14', 'C05'], gen='insert',
    ))

# ---- insert_block_and_control_blocks: run-time contract (tier B for now: checked at every real call, not yet proved)
ARCS = '[(p, s) for p in predecessors for s in sorted(set(old.self.graph[p].jump_targets) & set(successors))]'
A0 = 'get(old.self.name_gen.kinds, "synth_asign", 0)'
register(Contract(
    qual=SC + ':SCFG.insert_block_and_control_blocks', params=dict(IB_PARAMS), modifies=['self.graph', 'self.name_gen.kinds'],
    e1=False, gen='insert_ctrl',
    requires={
        'keys': KEYS,
        'fresh': 'new_name not in self.graph',
        'preds-in': 'all(p in self.graph for p in predecessors)',
        'preds-distinct': 'distinct(predecessors)',
        'succs-distinct': 'distinct(successors)',
        'targets-distinct': 'all(distinct(self.graph[p]._jump_targets) for p in predecessors)',
        'succs-targeted': 'all(any(s in self.graph[p].jump_targets for p in predecessors) for s in successors)',
        'generator-fresh': 'all(block_name("synth_asign", get(self.name_gen.kinds, "synth_asign", 0) + k) not in self.graph for k in range(8))',
        'branch-preds': 'all(table_ok(self.graph[p]) for p in predecessors if isinstance(self.graph[p], SyntheticBranch))',
    },
    known={'R3': 'any(len(self.graph[p].backedges) != 0 for p in predecessors)'},
    ensures={
        'head': 'type(self.graph[new_name]) is SyntheticHead and self.graph[new_name]._jump_targets == tuple(successors)'
                ' and self.graph[new_name].backedges == ()'
                ' and self.graph[new_name].variable == var_name("control", get(old.self.name_gen.kinds, "control", 0))',
        'table': 'self.graph[new_name].branch_value_table == {k: s for k, (p, s) in enumerate(%s)}' % ARCS,
        'assignments': 'all(self.graph[block_name("synth_asign", %s + k)] == SyntheticAssignment(block_name("synth_asign", %s + k), (new_name,), (),'
                       ' {var_name("control", get(old.self.name_gen.kinds, "control", 0)): k}) for k in range(len(%s)))' % (A0, A0, ARCS),
        'preds': 'all(self.graph[p]._jump_targets == tuple(block_name("synth_asign", %s + (%s).index((p, t))) if (p, t) in %s else t'
                 ' for t in old.self.graph[p]._jump_targets) for p in predecessors)' % (A0, ARCS, ARCS),
        'preds-same-otherwise': 'all(ib_plain(old.self.graph[p], self.graph[p]) and ib_branch(old.self.graph[p], self.graph[p])'
                                ' and ib_branch_renamed(old.self.graph[p], self.graph[p]) and ib_branch_table(old.self.graph[p], self.graph[p])'
                                ' for p in predecessors)',
        'dom': 'set(self.graph) == set(old.self.graph) | {new_name} | {block_name("synth_asign", %s + k) for k in range(len(%s))}' % (A0, ARCS),
        'others': 'all(self.graph[b] == old.self.graph[b] for b in old.self.graph if b not in predecessors)',
        'kinds': 'self.name_gen.kinds == updated(updated(old.self.name_gen.kinds, "control", get(old.self.name_gen.kinds, "control", 0) + 1),'
                 ' "synth_asign", %s + len(%s)) if len(%s) > 0 else self.name_gen.kinds == updated(old.self.name_gen.kinds, "control",'
                 ' get(old.self.name_gen.kinds, "control", 0) + 1)' % (A0, ARCS, ARCS),
        'keys': KEYS,
    },
    properties=['C14', 'C06', 'C12', 'C18'],
    note='exact generated names and constants in the postcondition => functional => independent of set iteration order (C12)',
))

EXITS = '{n for n in old.self.graph if old.self.graph[n].is_exiting}'
RNAME = 'block_name("synth_return", get(old.self.name_gen.kinds, "synth_return", 0))'
register(Contract(
    qual=SC + ':SCFG.join_returns', params={'self': 'SCFG'}, modifies=['self.graph', 'self.name_gen.kinds'],
    requires={'keys': KEYS,
              'generator-fresh': 'block_name("synth_return", get(self.name_gen.kinds, "synth_return", 0)) not in self.graph',
              # a branching synthetic block always has a successor per table entry: it is never an exit
              'exits-not-branching': 'all(not isinstance(self.graph[n], SyntheticBranch) for n in self.graph if self.graph[n].is_exiting)'},
    known={'R3': 'any(len(b.backedges) != 0 for b in self.graph.values() if b.is_exiting)'},
    ensures={
        'noop': 'implies(card(%s) <= 1, self.graph == old.self.graph and self.name_gen.kinds == old.self.name_gen.kinds)' % EXITS,
        'dom': 'implies(card(%s) > 1, set(self.graph) == set(old.self.graph) | {%s})' % (EXITS, RNAME),
        'return-block': 'implies(card(%s) > 1, self.graph[%s] == SyntheticReturn(name=%s, _jump_targets=(), backedges=()))' % (EXITS, RNAME, RNAME),
        'former-exits': 'implies(card(%s) > 1, all(appended(old.self.graph[n]._jump_targets, self.graph[n]._jump_targets, %s)'
                        ' and ib_plain(old.self.graph[n], self.graph[n]) for n in %s))' % (EXITS, RNAME, EXITS),
        'others': 'implies(card(%s) > 1, all(self.graph[n] == old.self.graph[n] for n in old.self.graph if n not in %s))' % (EXITS, EXITS),
        # exactly one exit afterwards: the new block is one, no former exit and no other old block is (with `dom`)
        'exit-new': 'implies(card(%s) > 1, self.graph[%s].is_exiting)' % (EXITS, RNAME),
        'former-not-exit': 'implies(card(%s) > 1, all(not self.graph[n].is_exiting for n in %s))' % (EXITS, EXITS),
        'others-not-exit': 'implies(card(%s) > 1, all(not self.graph[n].is_exiting for n in old.self.graph if n not in %s))' % (EXITS, EXITS),
        'kinds': 'implies(card(%s) > 1, self.name_gen.kinds == updated(old.self.name_gen.kinds, "synth_return", get(old.self.name_gen.kinds, "synth_return", 0) + 1))' % EXITS,
    },
    hints={'exit-new': ['new-block'], 'former-not-exit': ['pred-plain', 'pred-append', 'dom'], 'others-not-exit': ['others', 'dom'],
           'noop': [], 'former-exits': ['pred-plain', 'pred-append', 'dom'], 'others': ['others', 'dom'],
           'dom': ['dom'], 'return-block': ['new-block'], 'kinds': []},
    properties=['C14', 'C05'],
))

TNAME = 'block_name("synth_tail", get(old.self.name_gen.kinds, "synth_tail", 0))'
ENAME = 'block_name("synth_exit", get(old.self.name_gen.kinds, "synth_exit", 0))'
register(Contract(
    qual=SC + ':SCFG.join_tails_and_exits', params={'self': 'SCFG', 'tails': 'list[name]', 'exits': 'list[name]'},
    returns='pair[name,name]', modifies=['self.graph', 'self.name_gen.kinds'], gen='tails_exits',
    requires={'keys': KEYS, 'nonempty': 'len(tails) >= 1 and len(exits) >= 1',
              'tails-in': 'all(t in self.graph for t in tails)', 'distinct': 'distinct(tails) and distinct(exits)',
              'targets-distinct': 'all(distinct(self.graph[t]._jump_targets) for t in tails)',
              'kinds-nonneg': 'all(self.name_gen.kinds[k] >= 0 for k in self.name_gen.kinds)',
              # NG_inv for the two names this call may hand out: not yet used as a block, a target or an exit
              'fresh-tail': 'block_name("synth_tail", get(self.name_gen.kinds, "synth_tail", 0)) not in self.graph and block_name("synth_tail", get(self.name_gen.kinds, "synth_tail", 0)) not in exits',
              'fresh-tail-targets': 'all(block_name("synth_tail", get(self.name_gen.kinds, "synth_tail", 0)) not in self.graph[t]._jump_targets for t in tails)',
              'fresh-exit': 'block_name("synth_exit", get(self.name_gen.kinds, "synth_exit", 0)) not in self.graph and block_name("synth_exit", get(self.name_gen.kinds, "synth_exit", 0)) not in exits',
              'fresh-exit-targets': 'all(block_name("synth_exit", get(self.name_gen.kinds, "synth_exit", 0)) not in self.graph[t]._jump_targets for t in tails)',
              'not-exits': 'all(t not in exits for t in tails)',
              'branch-tails': 'all(table_ok(self.graph[t]) for t in tails if isinstance(self.graph[t], SyntheticBranch))'},
    known={'R3': 'any(len(self.graph[t].backedges) != 0 for t in tails)',
           'R13': 'len(tails) == 1 and len(exits) > 2'},
    ensures={
        'noop': 'implies(len(tails) == 1 and len(exits) == 1, result == (tails[0], exits[0]) and self.graph == old.self.graph'
                ' and self.name_gen.kinds == old.self.name_gen.kinds)',
        'result-tail': 'implies(len(tails) >= 2, result[0] == %s and type(self.graph[result[0]]) is SyntheticTail)' % TNAME,
        'result-tail-solo': 'implies(len(tails) == 1, result[0] == tails[0])',
        'result-exit': 'implies(len(exits) >= 2, result[1] == %s and type(self.graph[result[1]]) is SyntheticExit'
                       ' and self.graph[result[1]]._jump_targets == tuple(exits))' % ENAME,
        'result-exit-solo': 'implies(len(exits) == 1, result[1] == exits[0])',
        # every former arc from a tail into the exits now runs through the returned tail ...
        'tails-rerouted': 'implies(len(tails) >= 2, all(rr_sub(old.self.graph[t]._jump_targets, self.graph[t]._jump_targets, result[0], set(exits))'
                          ' and rr_new(old.self.graph[t]._jump_targets, self.graph[t]._jump_targets, result[0], set(exits)) for t in tails))',
        # ... and from there to the returned exit
        'tail-to-exit': 'implies(len(tails) >= 2, self.graph[result[0]]._jump_targets == (result[1],))',
        # a single tail with several exits: its arcs into the exits now run through the returned exit
        'solo-tail-rerouted': 'implies(len(tails) == 1 and len(exits) >= 2,'
                              ' rr_sub(old.self.graph[tails[0]]._jump_targets, self.graph[tails[0]]._jump_targets, result[1], set(exits))'
                              ' and rr_new(old.self.graph[tails[0]]._jump_targets, self.graph[tails[0]]._jump_targets, result[1], set(exits)))',
        'others': 'all(self.graph[b] == old.self.graph[b] for b in old.self.graph if b not in tails)',
    },
    frame_clauses=['others'],
    hints={'result-tail': ['new-block', 'pred-plain', 'dom'], 'tail-to-exit': ['new-block', 'pred-sub', 'pred-new', 'pred-distinct', 'pred-plain', 'dom'],
           'result-exit': ['new-block', 'others', 'dom'], 'tails-rerouted': ['pred-sub', 'pred-new', 'others', 'dom', 'new-block'],
           'solo-tail-rerouted': ['pred-sub', 'pred-new', 'dom'], 'others': ['others', 'dom']},
    properties=['C14'],
))
