"""Contracts for the region-discovery helpers of transformations.py (C13, C03, C02) — value mode."""
from pyvc.contract import Contract, LoopSpec, register

TR = 'numba_scfg.core.transformations'

# reg covers b: b is the start of the branch region or one of its inner blocks
COVERED = 'any(branch_regions[k] is not None and (b == branch_regions[k][0] or b in branch_regions[k][1]) for k in range(%s))'
register(Contract(
    qual=TR + ':find_tail_blocks',
    params={'scfg': 'SCFG', 'begin': 'name', 'head_region_blocks': 'set[name]',
            'branch_regions': 'list[opt[pair[name,set[name]]]]'},
    returns='set[name]',
    ensures={'def': 'result == {b for b in scfg.graph if b not in head_region_blocks and b != begin and not %s}'
                    % (COVERED % 'len(branch_regions)')},
    loops={
        'for reg in branch_regions': LoopSpec(inv={
            'tail': 'tail_subregion == {b for b in scfg.graph if b not in head_region_blocks and not %s}' % (COVERED % '_i')}),
        'for s in sub': LoopSpec(inv={
            'tail': 'tail_subregion == {x for x in entry.tail_subregion if x not in _done}'}),
    },
    properties=['C03', 'C13'],
))

# ---- dominators (C13): iterative fix point over explicit predecessor / successor tables
NS = 'set(nodes)'
FX = '(x == n or all(x in doms[p] for p in preds_table[n]))'          # x in F(doms)(n)
_dom_inv = {
    'keys': 'set(doms) == set(nodes)',
    'entries': 'all(doms[e] == {e} for e in entries)',
    'vals-in': 'all(x in set(nodes) for n in doms for x in doms[n])',
    'todo-in': 'all(t in set(nodes) for t in todo)',
    # current value is a post-fix-point of the dominator equations (what makes the assertion hold) ...
    'post-fix': 'all(x in doms[n] for n in set(nodes) if n not in entries for x in set(nodes) if %s)' % FX,
    # ... and a node that is not pending satisfies its equation
    'worklist': 'all(x in doms[p] for n in set(nodes) if n not in entries and n not in set(todo) for x in doms[n] if x != n'
                ' for p in preds_table[n])',
    # nothing that dominates is ever removed
    'complete': 'all(a in doms[n] for n in set(nodes) for a in set(nodes) if dominates(entries, preds_table, a, n))',
}
_DOM_CORE = ['keys', 'entries', 'vals-in', 'todo-in', 'post-fix', 'worklist', 'subset', 'differs', 'todo-kept', '-fact:assert', '-fact:card-list']
register(Contract(
    qual=TR + ':_find_dominators_internal',
    params={'entries': 'set[name]', 'nodes': 'list[name]', 'preds_table': 'tmap[name,set[name]]',
            'succs_table': 'tmap[name,set[name]]'},
    returns='dict[name,set[name]]',
    locals={'doms': 'dict[name,set[name]]', 'todo': 'list[name]', 'new_doms': 'set[name]'},
    requires={
        'entries-in': 'all(e in set(nodes) for e in entries)',
        'preds-in': 'all(p in set(nodes) for n in set(nodes) for p in preds_table[n])',
        'succs-in': 'all(s in set(nodes) for n in set(nodes) for s in succs_table[n])',
        'converse': 'all(n in succs_table[p] for n in set(nodes) for p in preds_table[n])',
        'no-orphans': 'all(n in entries or len(preds_table[n]) > 0 for n in set(nodes))',
    },
    raises={'RuntimeError': 'len(entries) == 0'},
    ensures={
        'keys': 'set(result) == set(nodes)',
        'entries': 'all(result[e] == {e} for e in entries)',
        'equations': 'all(result[n] == {n} | {x for x in set(nodes) if all(x in result[p] for p in preds_table[n])}'
                     ' for n in set(nodes) if n not in entries)',
        'vals-in': 'all(x in set(nodes) for n in result for x in result[n])',
        'complete': 'all(a in result[n] for n in set(nodes) for a in set(nodes) if dominates(entries, preds_table, a, n))',
        'sound': 'all(dominates(entries, preds_table, a, n) for n in set(nodes) for a in result[n])',
    },
    loops={
        'for e in entries': LoopSpec(inv={
            'keys': 'set(doms) == _done',
            'vals': 'all(doms[e2] == {e2} for e2 in _done)'}),
        'for n in nodes': LoopSpec(inv={
            'keys': 'set(doms) == entries | _i_seen',
            'entries': 'all(doms[e] == {e} for e in entries)',
            'vals': 'all(doms[m] == set(nodes) for m in _i_seen if m not in entries)',
            'todo-in': 'all(t in set(nodes) for t in todo)',
            'todo-all': 'all(m in todo for m in _i_seen if m not in entries)'}),
        'while todo': LoopSpec(inv=_dom_inv, assume={'D-gfp': 'dgfp(entries, preds_table, nodes, doms)'}),
    },
    cuts={'assert len(new_doms) < len(doms[n])': {
        'subset': 'all(x in doms[n] for x in new_doms)',
        'differs': 'new_doms != doms[n]'},
          # the work list only lost the node that was popped
          'end:while todo': {'todo-kept': 'all(y in set(todo) or y == n for y in set(it0.todo))'}},
    # the two preconditions `preds-in` and `no-orphans` together form a matching loop (every node has a predecessor,
    # which is a node, which has a predecessor ...): each obligation gets only the one it needs
    hints={'*': _DOM_CORE + ['-requires:no-orphans'],
           'inv-init:*': ['keys', 'entries', 'vals', 'todo-in', 'todo-all', '-requires:no-orphans'],
           'inv-init:complete': ['entries', 'vals'],
           'inv-step:post-fix': ['post-fix', 'subset', 'keys', 'todo-in', '-requires:preds-in', '-fact:assert', '-fact:card-list'],
           'todo-kept': ['-requires:no-orphans', '-requires:preds-in', '-fact:assert', '-fact:card-list'],
           'complete': _DOM_CORE + ['complete'],
           'sound': _DOM_CORE + ['D-gfp', '-requires:no-orphans'],
           'equations': _DOM_CORE + ['-requires:preds-in']},
    properties=['C13', 'C02'], gen='dom_tables', card_mono=['assert len(new_doms) < len(doms[n])'],
))

# ---- _doms / _post_doms: the tables are exactly the in-graph edge relation (its converse for post-dominance),
# the entries the blocks without in-graph predecessors (successors); the result is path-based dominance on that relation
G = 'scfg.graph'
EDGE = '(s in scfg.graph and d in scfg.graph and d in scfg.graph[s].jump_targets)'      # in-graph edge s -> d
PREDS = 'tmap(lambda d: {s for s in scfg.graph if %s}, scfg.graph)' % EDGE
SUCCS = 'tmap(lambda s: {d for d in scfg.graph if %s}, scfg.graph)' % EDGE
NOPRED = '{k for k in scfg.graph if not any(k in scfg.graph[s].jump_targets for s in scfg.graph)}'
NOSUCC = '{k for k in scfg.graph if not any(d in scfg.graph for d in scfg.graph[k].jump_targets)}'


def _dom_contract(fn, fwd):
    """fwd: dominators (tables as the code names them); not fwd: post-dominators (roles of the two tables swapped)"""
    ent = NOPRED if fwd else NOSUCC
    rel = PREDS if fwd else SUCCS          # what the code passes as `preds_table`
    con = SUCCS if fwd else PREDS
    t_in, t_out = ('preds_table', 'succs_table') if fwd else ('succs_table', 'preds_table')   # keyed by dst / by src
    jts = 'node.jump_targets'
    edge = 'd in scfg.graph and s in scfg.graph and d in scfg.graph[s].jump_targets'
    cur = '(s == src and any(%s[k] == d for k in range(_i)))' % jts
    outer = {
        # elimination and introduction forms of "the tables hold exactly the in-graph edges leaving the blocks in _done"
        # (both trigger on terms the solver has: a table entry, a position of a target tuple)
        'in-elim': 'all(s in _done and %s for d in %s for s in %s[d])' % (edge, t_in, t_in),
        'in-intro': 'all(s in %s[d] for s in _done for d in scfg.graph[s].jump_targets if d in scfg.graph)' % t_in,
        'out-elim': 'all(s in _done and %s for s in %s for d in %s[s])' % (edge, t_out, t_out),
        'out-intro': 'all(d in %s[s] for s in _done for d in scfg.graph[s].jump_targets if d in scfg.graph)' % t_out,
    }
    inner = {
        'in-elim': 'all((s in _done or %s) and %s for d in %s for s in %s[d])' % (cur, edge, t_in, t_in),
        'in-intro': outer['in-intro'],
        'in-intro-cur': 'all(src in %s[%s[k]] for k in range(_i) if %s[k] in scfg.graph)' % (t_in, jts, jts),
        'out-elim': 'all((s in _done or %s) and %s for s in %s for d in %s[s])' % (cur, edge, t_out, t_out),
        'out-intro': outer['out-intro'],
        'out-intro-cur': 'all(%s[k] in %s[src] for k in range(_i) if %s[k] in scfg.graph)' % (jts, t_out, jts),
        'src': 'src in scfg.graph and src not in _done and node == scfg.graph[src]',
    }
    loops = {
        'for src, node in scfg.graph.items()': LoopSpec(done='_done', inv=outer),
        'for dst in node.jump_targets': LoopSpec(inv=inner),
    }
    if fwd:
        loops['for k in scfg.graph'] = LoopSpec(done='_dk', inv={'entries': 'entries == {k2 for k2 in _dk if not preds_table[k2]}'})
    else:
        loops['for k, v in scfg.graph.items()'] = LoopSpec(done='_dk', inv={
            'entries': 'entries == {k2 for k2 in _dk if not any(d in scfg.graph for d in scfg.graph[k2].jump_targets)}'})
    return Contract(
        qual=TR + ':' + fn, params={'scfg': 'SCFG'}, returns='dict[name,set[name]]',
        locals={'entries': 'set[name]', 'preds_table': 'tmap[name,set[name]]', 'succs_table': 'tmap[name,set[name]]',
                'targets': 'set[name]'},
        raises={'RuntimeError': 'len(%s) == 0' % ent},
        ensures={
            'keys': 'set(result) == set(scfg.graph)',
            # exactly the path-based definition on the in-graph edge relation
            'def': 'all((a in result[n]) == (a in scfg.graph and dominates(%s, %s, a, n)) for n in scfg.graph for a in set(scfg.graph) | result[n])' % (ent, rel),
        },
        loops=loops,
        cuts={'return _find_dominators_internal(': {
            'entries-eq': 'entries == %s' % ent,
            'entries-final': 'identical(entries, %s)' % ent,
            'rel-final': 'identical(preds_table, %s)' % rel,
            'con-final': 'identical(succs_table, %s)' % con}},
        properties=['C13', 'C03'], gen='scfg_only',
    )


register(_dom_contract('_doms', True))
register(_dom_contract('_post_doms', False))

# ---- find_branch_regions (C03): modular over the contracts of _doms and is_reachable_dfs
JT = 'scfg.graph[begin].jump_targets'
EMPTY_ARM = 'any(%s[j] != %s[i] and reach1(scfg.graph, %s[j], %s[i]) for j in range(len(%s)))' % ((JT,) * 5)
DOMSET = '{k for k in scfg.graph if dominates(%s, %s, %s[i], k) and not dominates(%s, %s, end, k)}' % (NOPRED, PREDS, JT, NOPRED, PREDS)
register(Contract(
    qual=TR + ':find_branch_regions', params={'scfg': 'SCFG', 'begin': 'name', 'end': 'name'},
    returns='list[opt[pair[name,set[name]]]]',
    locals={'branch_regions': 'list[opt[pair[name,set[name]]]]', 'sub_keys': 'set[name]'},
    requires={'begin-in': 'begin in scfg.graph',
              'targets-in': 'all(t in scfg.graph for t in %s)' % JT,
              'end-in': 'end in scfg.graph'},
    raises={'RuntimeError': 'len(%s) == 0' % NOPRED},
    ensures={
        'len': 'len(result) == len(%s)' % JT,
        # an arm that another arm flows into is an empty branch region (placeholder None) ...
        'empty': 'all((result[i] is None) == %s for i in range(len(%s)))' % (EMPTY_ARM, JT),
        # ... otherwise the region starts at the arm's target and holds the blocks it dominates and `end` does not
        'start': 'all(implies(result[i] is not None, result[i][0] == %s[i]) for i in range(len(%s)))' % (JT, JT),
        'members': 'all(implies(result[i] is not None, result[i][1] == %s) for i in range(len(%s)))' % (DOMSET, JT),
    },
    loops={
        'for bra_start in jump_targets': LoopSpec(index='_i', inv={
            'len': 'len(branch_regions) == _i',
            'empty': 'all((branch_regions[i] is None) == %s for i in range(_i))' % EMPTY_ARM,
            'start': 'all(implies(branch_regions[i] is not None, branch_regions[i][0] == %s[i]) for i in range(_i))' % JT,
            'members': 'all(implies(branch_regions[i] is not None, branch_regions[i][1] == %s) for i in range(_i))' % DOMSET,
        }),
        'for jt in jump_targets': LoopSpec(index='_j', frame=['br-same'], inv={
            'none-yet': 'not any(%s[j] != bra_start and reach1(scfg.graph, %s[j], bra_start) for j in range(_j))' % (JT, JT),
            'br-same': 'branch_regions == entry.branch_regions',
        }),
        'for k, kdom in doms.items()': LoopSpec(done='_dk', frame=['br-same'], inv={
            'sub': 'sub_keys == {k2 for k2 in _dk if bra_start in doms[k2] and end not in doms[k2]}',
        }),
    },
    cuts={'branch_regions.append(None)': {
        'witness': 'any(%s[j] != bra_start and reach1(scfg.graph, %s[j], bra_start) for j in range(len(%s)))' % (JT, JT, JT),
        'bra': 'bra_start == %s[_i] and _i == len(branch_regions)' % JT}},
    properties=['C03', 'C13'], gen='branch_regions',
))

# ---- find_head_blocks (C03): the linear chain from the head of the graph to `begin` (partial correctness: the loop
# need not terminate on a cyclic chain that avoids `begin`; an assertion failure / KeyError is what a non-linear or
# leaving chain produces and is allowed by this contract - the pipeline-level no-raise claim is C02's bounded part)
HB = 'scfg.find_head()'
JT1 = 'scfg.graph[b].jump_targets'
register(Contract(
    qual=TR + ':find_head_blocks', params={'scfg': 'SCFG', 'begin': 'name'}, returns='set[name]',
    locals={'head_region_blocks': 'set[name]'},
    raises={'AssertionError': 'True', 'KeyError': 'True'},
    ensures={
        'head-in': '%s in result' % HB,
        'begin-in': 'begin in result',
        'chain': 'all(b == begin or (b in scfg.graph and len(%s) == 1 and %s[0] in result) for b in result)' % (JT1, JT1),
        'from-head': 'all(b == %s or reach1(scfg.graph, %s, b) for b in result)' % (HB, HB),
    },
    loops={'while True': LoopSpec(inv={
        'cur': 'current_block == head or reach1(scfg.graph, head, current_block)',
        'head': 'head == %s' % HB,
        'all-reach': 'all(b == head or reach1(scfg.graph, head, b) for b in head_region_blocks)',
        'chain': 'all(b != begin and b in scfg.graph and len(%s) == 1 and (%s[0] in head_region_blocks or %s[0] == current_block)'
                 ' for b in head_region_blocks)' % (JT1, JT1, JT1),
        'head-in': 'head in head_region_blocks or current_block == head',
    })},
    properties=['C03'], gen='head_blocks',
))


# ---- _iter_branch_regions: the (begin, end) pairs of this level: a reachable block with more than one target whose
# immediate post-dominator is immediately dominated by it (C03).  The iteration over the concealed view is used through
# the contract of region_view_iterator (head or reachable from it, each once).
from contracts.scfg_queries import REGION_SYNC as _RSYNC, HEADS as _HEADS
_SG = 'scfg.graph'
_ISTART = 'scfg.find_head()'
_IREACH = '(b == %s or reach1(%s, %s, b))' % (_ISTART, _SG, _ISTART)
_IBR = ('len(%s[b].jump_targets) > 1 and b in postimmdoms and immdoms[postimmdoms[b]] == b' % _SG)
register(Contract(
    qual=TR + ':_iter_branch_regions', params={'scfg': 'SCFG', 'immdoms': 'dict[name,name]', 'postimmdoms': 'dict[name,name]'},
    # the ghost set holds the first components; every yielded item is (b, postimmdoms[b])
    returns='set[name]', yield_key=0, yield_check='it[1] == postimmdoms[it[0]]',
    requires={'regions-sync': _RSYNC.replace('self.scfg.graph', _SG),
              'one-head': 'card(%s) == 1' % _HEADS.replace('self.graph', _SG),
              # a consequence of one-head by find_head's proved contract, stated in the callee's words
              'head-in': '%s in %s' % (_ISTART, _SG)},
    raises={'KeyError': 'any(postimmdoms[b] not in immdoms for b in %s if %s and len(%s[b].jump_targets) > 1 and b in postimmdoms)'
                        % (_SG, _IREACH, _SG)},
    yields='{b for b in %s if %s and %s}' % (_SG, _IREACH, _IBR),
    ensures={'exactly': 'result == {b for b in %s if %s and %s}' % (_SG, _IREACH, _IBR)},
    loops={'for begin, node in scfg.concealed_region_view.items()': LoopSpec(done='_done', inv={
        'yielded': '_yielded == {b for b in _done if %s}' % _IBR})},
    properties=['C03'], gen='branch_pairs',
))
