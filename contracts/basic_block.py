"""Contracts for numba_scfg/core/datastructures/basic_block.py."""
from pyvc.contract import Contract, LoopSpec, register

BB = 'numba_scfg.core.datastructures.basic_block'

# jump_targets: the order-preserving filter of _jump_targets by `not in backedges`,
# stated by its first-order consequences (DESIGN 2.2).
register(Contract(
    qual=BB + ':BasicBlock.jump_targets',
    params={'self': 'block'}, returns='list[name]', pure=True, is_property=True,
    locals={'acc': 'list[name]'},
    # sub/sup alternate between the two sequences (matching loop): proved of the body and checked at run time, but not
    # offered to callers, which only ever need `len` and `nobe`
    axiom_clauses=['len', 'nobe'],
    ensures={
        'sub': 'all(x in self._jump_targets and x not in self.backedges for x in result)',
        'sup': 'all(x in result for x in self._jump_targets if x not in self.backedges)',
        'len': 'len(result) <= len(self._jump_targets)',
        'nobe': 'implies(len(self.backedges) == 0, result == self._jump_targets)',
        'distinct': 'implies(distinct(self._jump_targets), distinct(result))',
        # the number of forward targets is the number of entries that are not declared back edges
        'len-rank': 'len(result) == fwd_rank(self._jump_targets, self.backedges, len(self._jump_targets))',
    },
    loops={'for j in self._jump_targets': LoopSpec(inv={
        'from-prefix': 'all(any(self._jump_targets[k] == acc[p] for k in range(_i)) for p in range(len(acc)))',
        'notbe': 'all(x not in self.backedges for x in acc)',
        'sup': 'all(self._jump_targets[k] in acc for k in range(_i) if self._jump_targets[k] not in self.backedges)',
        'len': 'len(acc) <= _i',
        'nobe': 'implies(len(self.backedges) == 0, len(acc) == _i and all(acc[k] == self._jump_targets[k] for k in range(_i)))',
        'distinct': 'implies(distinct(self._jump_targets), distinct(acc))',
        'len-rank': 'len(acc) == fwd_rank(self._jump_targets, self.backedges, _i)',
    })},
    properties=['C13', 'C14', 'C05'],
))

register(Contract(
    qual=BB + ':BasicBlock.is_exiting',
    params={'self': 'block'}, returns='bool', pure=True, is_property=True,
    inline='len(self.jump_targets) == 0',
    ensures={'def': 'result == (len(self.jump_targets) == 0)'},
    properties=['C13'],
))

register(Contract(
    qual=BB + ':BasicBlock.fallthrough',
    params={'self': 'block'}, returns='bool', pure=True, is_property=True,
    inline='len(self._jump_targets) == 1',
    ensures={'def': 'result == (len(self._jump_targets) == 1)'},
    properties=['C13'],
))

register(Contract(
    qual=BB + ':BasicBlock.replace_jump_targets',
    params={'self': 'block', 'jump_targets': 'tuple[name]'}, returns='block', pure=True,
    inline='replace(self, _jump_targets=jump_targets)',
    ensures={'def': 'result == replace(self, _jump_targets=jump_targets)'},
    properties=['C05', 'C14'],
))

register(Contract(
    qual=BB + ':BasicBlock.replace_backedges',
    params={'self': 'block', 'backedges': 'tuple[name]'}, returns='block', pure=True,
    inline='replace(self, backedges=backedges)',
    ensures={'def': 'result == replace(self, backedges=backedges)'},
    properties=['C05'],
))

register(Contract(
    qual=BB + ':BasicBlock.declare_backedge',
    params={'self': 'block', 'target': 'name'}, returns='block', pure=True,
    # the assert is reachable only for a block that already has a back edge and
    # still lists `target` among its forward targets
    raises={'AssertionError': 'target in self.jump_targets and len(self.backedges) != 0'},
    ensures={
        'declared': 'implies(target in self.jump_targets, result == replace(self, backedges=(target,)))',
        'noop': 'implies(target not in self.jump_targets, result == self)',
    },
    properties=['C03', 'C05'],
))

# in-place writes of a region block (frozen dataclass, written through object.__setattr__)
for _m, _f, _p in (('replace_header', 'header', 'new_header'), ('replace_exiting', 'exiting', 'new_exiting')):
    register(Contract(
        qual=BB + ':RegionBlock.' + _m, params={'self': 'block', _p: 'name'}, modifies=['self'],
        ensures={'def': 'self == replace(old.self, %s=%s)' % (_f, _p)},
        properties=['C04'], gen='region_field',
    ))
