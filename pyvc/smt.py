"""Sorts, symbolic values and the axiom library of the VC generator (E1).

Encoding (DESIGN 2.2):
  str            -> uninterpreted sort Name with an injective map ord: Name -> Real
                    (every countable total order embeds in Q, so `<` on str is
                    soundly abstracted by `<` on ord); string literals are
                    pairwise distinct constants; `+` and str(int) are
                    uninterpreted functions (concat, str_of_int)
  int / bool     -> Int / Bool (mathematical integers)
  list / tuple   -> datatype Seq_T(arr: Array Int T, n: Int) with n >= 0
  set            -> Array T Bool (finite by assumption)
  dict           -> datatype Dict_K_V(dom: Array K Bool, val: Array K V)
                    (iteration order: arbitrary, which over-approximates
                    insertion order)
  frozen dataclasses of basic_block.py -> one datatype Block with a class tag
"""
from __future__ import annotations
import z3
from z3 import (And, Or, Not, Implies, If, ForAll, Exists, Select, Store, K,
                IntVal, BoolVal, IntSort, BoolSort, RealSort, ArraySort,
                Function, Const, FreshConst, Datatype, DeclareSort)

Name = DeclareSort('Name')
ord_f = Function('ord', Name, RealSort())
ord_inv = Function('ord_inv', RealSort(), Name)
concat_f = Function('concat', Name, Name, Name)
str_of_int = Function('str_of_int', IntSort(), Name)
card_f = None  # set below (per set sort)

# ---------------------------------------------------------------- types
# type descriptors are tuples: ('int',) ('bool',) ('name',) ('none',)
# ('block',) ('cls',) ('seq',T) ('set',T) ('dict',K,V) ('pair',A,B,...)
# ('opt',T)


def parse_type(s: str):
    s = s.replace(' ', '')
    pos = 0

    def p():
        nonlocal pos
        start = pos
        while pos < len(s) and (s[pos].isalnum() or s[pos] == '_'):
            pos += 1
        head = s[start:pos]
        args = []
        if pos < len(s) and s[pos] == '[':
            pos += 1
            while True:
                args.append(p())
                if s[pos] == ',':
                    pos += 1
                    continue
                assert s[pos] == ']', s
                pos += 1
                break
        if head in ('list', 'tuple', 'seq'):
            return ('seq', args[0])
        if head == 'str':
            return ('name',)
        if head in ('int', 'bool', 'name', 'none', 'block', 'cls', 'inst', 'sub', 'node', 'pyclass'):
            return (head,)
        if head in ('set', 'opt'):
            return (head, args[0])
        if head == 'dict':
            return ('dict', args[0], args[1])
        if head == 'tmap':
            return ('tmap', args[0], args[1])
        if head == 'pair':
            return ('pair',) + tuple(args)
        return ('obj', head)
    t = p()
    assert pos == len(s), s
    return t


def mangle(ty):
    if len(ty) == 1:
        return ty[0]
    return ty[0] + '_' + '_'.join(mangle(a) for a in ty[1:]) + '_'


_sorts: dict = {}
_dt: dict = {}      # ty -> datatype sort (for accessors)
SEQ_AXIOMS: list = []


def sort_of(ty):
    if ty in _sorts:
        return _sorts[ty]
    k = ty[0]
    if k == 'node':
        # an opaque Python object (an ast node): only its identity and its class membership (`isa`) are observed
        s = IntSort()
    elif k == 'pyclass':
        # a Python class object, identified by its dotted name
        s = Name
    elif k == 'int' or k == 'cls' or k == 'sub':
        # 'sub': the opaque identity of a region's sub-graph object (value mode, DESIGN 2.2); its `graph` is an
        # uninterpreted function of the identity
        s = IntSort()
    elif k == 'bool':
        s = BoolSort()
    elif k == 'name':
        s = Name
    elif k == 'set':
        s = ArraySort(sort_of(ty[1]), BoolSort())
    elif k == 'seq':
        d = Datatype('Seq_' + mangle(ty[1]))
        d.declare('mk', ('arr', ArraySort(IntSort(), sort_of(ty[1]))), ('n', IntSort()))
        s = d.create()
        _dt[ty] = s
    elif k == 'dict':
        d = Datatype('Dict_' + mangle(ty[1]) + '_' + mangle(ty[2]))
        d.declare('mk', ('dom', ArraySort(sort_of(ty[1]), BoolSort())),
                  ('val', ArraySort(sort_of(ty[1]), sort_of(ty[2]))))
        s = d.create()
        _dt[ty] = s
    elif k == 'heap':
        # the block dictionaries of all region sub-graphs, by sub-graph identity (heap mode, DESIGN 11)
        s = ArraySort(IntSort(), sort_of(('dict', T_NAME, T_BLOCK)))
    elif k == 'tmap':
        # collections.defaultdict(<factory of an empty V>): a total map; a key that was never written reads as the
        # factory value (reading it inserts the key in Python, which no modelled operation can observe: tmaps are
        # only subscripted)
        s = ArraySort(sort_of(ty[1]), sort_of(ty[2]))
    elif k == 'pair':
        d = Datatype('Pair_' + '_'.join(mangle(a) for a in ty[1:]))
        d.declare('mk', *[('f%d' % i, sort_of(a)) for i, a in enumerate(ty[1:])])
        s = d.create()
        _dt[ty] = s
    elif k == 'opt':
        d = Datatype('Opt_' + mangle(ty[1]))
        d.declare('none')
        d.declare('some', ('v', sort_of(ty[1])))
        s = d.create()
        _dt[ty] = s
    elif k == 'block':
        s = make_block_sort()
    elif k == 'inst':
        s = make_inst_sort()
    else:
        raise TypeError('no sort for %r' % (ty,))
    _sorts[ty] = s
    return s


T_INT, T_BOOL, T_NAME, T_NONE, T_BLOCK, T_CLS = ('int',), ('bool',), ('name',), ('none',), ('block',), ('cls',)
T_SEQN = ('seq', T_NAME)
T_SETN = ('set', T_NAME)
T_INST = ('inst',)
T_SUB = ('sub',)
T_HEAP = ('heap',)
sub_graph_f = None


def sub_graph(v):
    """the block dictionary of a region's sub-graph, as a function of the sub-graph's identity"""
    global sub_graph_f
    ty = ('dict', T_NAME, T_BLOCK)
    if sub_graph_f is None:
        sub_graph_f = Function('sub_graph', IntSort(), sort_of(ty))
    return V(ty, sub_graph_f(v.t))

BLOCK_FIELDS = [
    ('cls', T_CLS), ('name', T_NAME), ('_jump_targets', T_SEQN), ('backedges', T_SEQN),
    ('begin', T_INT), ('end', T_INT),
    ('variable', T_NAME), ('branch_value_table', ('dict', T_INT, T_NAME)),
    ('variable_assignment', ('dict', T_NAME, T_INT)),
    ('kind', T_NAME), ('header', T_NAME), ('exiting', T_NAME),
    ('subregion', ('sub',)), ('parent_region', T_INT), ('tree', T_INT),
]
_block_sort = None


def make_block_sort():
    global _block_sort
    if _block_sort is None:
        d = Datatype('Block')
        d.declare('mk', *[(('f_' + n), sort_of(t)) for n, t in BLOCK_FIELDS])
        _block_sort = d.create()
    return _block_sort


INST_FIELDS = [('offset', T_INT), ('opname', T_NAME), ('argval', T_INT), ('is_jump_target', T_BOOL)]
_inst_sort = None


def make_inst_sort():
    global _inst_sort
    if _inst_sort is None:
        d = Datatype('Inst')
        d.declare('mk', *[(('i_' + n), sort_of(t)) for n, t in INST_FIELDS])
        _inst_sort = d.create()
    return _inst_sort


# ---------------------------------------------------------------- values
class V:
    """A symbolic value: type descriptor + z3 term of sort_of(type)."""
    __slots__ = ('ty', 't')

    def __init__(self, ty, t):
        self.ty = ty
        self.t = t

    def __repr__(self):
        return 'V(%s, %s)' % (mangle(self.ty), self.t)


class VObj:
    """A heap object whose fields are tracked individually (self, name_gen ...)."""

    def __init__(self, cls, fields):
        self.cls = cls
        self.f = dict(fields)

    def copy(self):
        return VObj(self.cls, {k: (v.copy() if isinstance(v, VObj) else v) for k, v in self.f.items()})

    def __repr__(self):
        return 'VObj(%s, %s)' % (self.cls, list(self.f))


NONE = V(T_NONE, None)


def vint(x):
    return V(T_INT, IntVal(x) if isinstance(x, int) else x)


def vbool(x):
    return V(T_BOOL, BoolVal(x) if isinstance(x, bool) else x)


_literals: dict = {}


def name_lit(s: str):
    if s not in _literals:
        _literals[s] = Const('lit!' + s, Name)
    return V(T_NAME, _literals[s])


def literal_axioms():
    ls = list(_literals.values())
    return [z3.Distinct(*ls)] if len(ls) > 1 else []


def literal_table():
    return dict(_literals)


WF_SEQS: dict = {}    # id -> (term, datatype): sequence constants known to be in normal form (n >= 0)


def register_wf(v):
    if isinstance(v, V) and v.ty[0] == 'seq' and z3.is_const(v.t) and v.t.decl().kind() == z3.Z3_OP_UNINTERPRETED:
        WF_SEQS[v.t.get_id()] = (v.t, v.ty)
    return v


def reset_wf():
    WF_SEQS.clear()


def wf_axioms():
    return [_dt[ty].n(t) >= 0 for t, ty in WF_SEQS.values()]


def fresh(ty, hint='v'):
    return register_wf(V(ty, FreshConst(sort_of(ty), hint)))


# seq helpers -----------------------------------------------------------
def _ctor_arg(t, i):
    """accessor(constructor(args)) -> args[i] at construction time (keeps terms small)."""
    if z3.is_app(t) and t.decl().kind() == z3.Z3_OP_DT_CONSTRUCTOR and t.num_args() > i:
        return t.arg(i)
    return None


def seq_arr(v):
    a = _ctor_arg(v.t, 0)
    return a if a is not None else _dt[v.ty].arr(v.t)


def seq_n(v):
    """Length; total semantics: a negative length field denotes the empty sequence
    (there is no axiom `n >= 0`: it would be false of the datatype)."""
    raw = _ctor_arg(v.t, 1)
    if raw is not None:
        if z3.is_int_value(raw) and raw.as_long() >= 0:
            return raw
    else:
        raw = _dt[v.ty].n(v.t)
        if v.t.get_id() in WF_SEQS:
            return raw
    return If(raw >= 0, raw, 0)


def mk_seq(et, arr, n):
    ty = ('seq', et)
    sort_of(ty)
    return V(ty, _dt[ty].mk(arr, n))


def seq_get(v, i):
    return V(v.ty[1], Select(seq_arr(v), i))


def seq_from_list(et, vals):
    a = K(IntSort(), default_term(et))
    for i, x in enumerate(vals):
        a = Store(a, i, x.t)
    return mk_seq(et, a, IntVal(len(vals)))


def default_term(ty):
    return FreshConst(sort_of(ty), 'dflt') if ty[0] not in ('int', 'bool') else (IntVal(0) if ty[0] == 'int' else BoolVal(False))


def literal_elements(v):
    """elements of a sequence built by seq_from_list (constructor over a Store chain with a literal length), else None"""
    arr, n = _ctor_arg(v.t, 0), _ctor_arg(v.t, 1)
    if arr is None or n is None or not z3.is_int_value(n):
        return None
    n = n.as_long()
    elems = {}
    while z3.is_app_of(arr, z3.Z3_OP_STORE):
        a, i, e = arr.arg(0), arr.arg(1), arr.arg(2)
        if not z3.is_int_value(i):
            return None
        elems.setdefault(i.as_long(), e)
        arr = a
    if not all(i in elems for i in range(n)):
        return None
    return [elems[i] for i in range(n)]


def seq_mem(v, x):
    lit = literal_elements(v)
    if lit is not None and len(lit) <= 8:
        return Or(*[e == x for e in lit]) if lit else BoolVal(False)
    k = z3.FreshInt('km')
    return Exists([k], And(0 <= k, k < seq_n(v), Select(seq_arr(v), k) == x))


def forall_p(vs, body, patterns):
    """ForAll with explicit patterns when z3 accepts them, automatic patterns otherwise."""
    def simple(t, depth=0):
        if depth > 30 or not z3.is_app(t):
            return not z3.is_quantifier(t)
        if t.decl().kind() in (z3.Z3_OP_ITE, z3.Z3_OP_OR, z3.Z3_OP_AND, z3.Z3_OP_NOT, z3.Z3_OP_EQ):
            return False
        return all(simple(c, depth + 1) for c in t.children())
    if all(simple(p) for p in patterns):
        try:
            return ForAll(vs, body, patterns=patterns)
        except z3.Z3Exception:
            pass
    return ForAll(vs, body)


def seq_eq(a, b):
    """Python == on lists/tuples: same length, same elements on the range."""
    k = z3.FreshInt('ke')
    return And(seq_n(a) == seq_n(b),
               forall_p([k], Implies(And(0 <= k, k < seq_n(a)),
                                     val_eq(seq_get(a, k), seq_get(b, k))),
                        [Select(seq_arr(a), k), Select(seq_arr(b), k)]))


def seq_distinct(v):
    i, j = z3.FreshInt('di'), z3.FreshInt('dj')
    # the explicit instance for the first two positions gives the solver the terms v[0], v[1]
    return And(ForAll([i, j], Implies(And(0 <= i, i < j, j < seq_n(v)),
                                      Select(seq_arr(v), i) != Select(seq_arr(v), j))),
               Implies(seq_n(v) > 1, Select(seq_arr(v), 0) != Select(seq_arr(v), 1)))


def seq_sorted_strict(v):
    i, j = z3.FreshInt('si'), z3.FreshInt('sj')
    assert v.ty[1] == T_NAME or v.ty[1] == T_INT
    key = (lambda t: ord_f(t)) if v.ty[1] == T_NAME else (lambda t: t)
    return ForAll([i, j], Implies(And(0 <= i, i < j, j < seq_n(v)),
                                  key(Select(seq_arr(v), i)) < key(Select(seq_arr(v), j))))


def seq_to_set(v):
    x = FreshConst(sort_of(v.ty[1]), 'sx')
    return V(('set', v.ty[1]), z3.Lambda([x], seq_mem(v, x)))


# set helpers -----------------------------------------------------------
def set_mem(s, x):
    return Select(s.t, x)


def set_eq(a, b):
    x = FreshConst(sort_of(a.ty[1]), 'qx')
    return ForAll([x], Select(a.t, x) == Select(b.t, x))


def set_empty(et):
    return V(('set', et), K(sort_of(et), BoolVal(False)))


_card = {}


def set_card(s):
    srt = sort_of(s.ty)
    if s.ty not in _card:
        _card[s.ty] = Function('card_' + mangle(s.ty), srt, IntSort())
    return _card[s.ty](s.t)




def card_axioms():
    """Axioms of `card` on finite sets (DESIGN section 6)."""
    out = []
    for ty, f in _card.items():
        et = ty[1]
        A = FreshConst(sort_of(ty), 'cA')
        B = FreshConst(sort_of(ty), 'cB')
        x = FreshConst(sort_of(et), 'cx')
        out.append(ForAll([A], f(A) >= 0, patterns=[f(A)]))
        out.append(f(K(sort_of(et), BoolVal(False))) == 0)
        out.append(ForAll([A], Implies(f(A) == 0, A == K(sort_of(et), BoolVal(False))), patterns=[f(A)]))
        out.append(ForAll([A, x], f(Store(A, x, True)) == If(Select(A, x), f(A), f(A) + 1),
                          patterns=[f(Store(A, x, True))]))
        out.append(ForAll([A, x], f(Store(A, x, False)) == If(Select(A, x), f(A) - 1, f(A)),
                          patterns=[f(Store(A, x, False))]))
        wit = Function('wit_' + mangle(ty), sort_of(ty), sort_of(et))
        # a non-empty finite set has a member; removing a member decreases the cardinality by one
        out.append(ForAll([A], Implies(f(A) >= 1, Select(A, wit(A))), patterns=[f(A)]))
        # a set all of whose members equal x, and that contains x, has exactly one element
        yq = FreshConst(sort_of(et), 'cyq')
        out.append(ForAll([A, x], Implies(And(Select(A, x), ForAll([yq], Implies(Select(A, yq), yq == x))), f(A) == 1),
                          patterns=[z3.MultiPattern(f(A), Select(A, x))]))
        # congruence, stated so that the array theory is handed the disequality it needs for extensionality
        out.append(ForAll([A, B], Implies(f(A) != f(B), A != B), patterns=[z3.MultiPattern(f(A), f(B))]))
        y2 = FreshConst(sort_of(et), 'cy2')
        out.append(ForAll([A, x], Implies(Select(A, x), f(A) >= 1), patterns=[z3.MultiPattern(f(A), Select(A, x))]))
        out.append(ForAll([A, x, y2], Implies(And(f(A) == 1, Select(A, x), Select(A, y2)), x == y2),
                          patterns=[z3.MultiPattern(f(A), Select(A, x), Select(A, y2))]))
    return out


def card_mono_axioms():
    """Monotonicity of card under inclusion (strict for proper inclusion) - true of finite sets (DESIGN section 6).
    Instantiated for every pair of card terms, hence given only to the obligations that ask for it."""
    out = []
    for ty, f in _card.items():
        et = ty[1]
        A = FreshConst(sort_of(ty), 'cA')
        B = FreshConst(sort_of(ty), 'cB')
        y = FreshConst(sort_of(et), 'cy')
        sub = ForAll([y], Implies(Select(A, y), Select(B, y)))
        out.append(ForAll([A, B], Implies(sub, f(A) <= f(B)), patterns=[z3.MultiPattern(f(A), f(B))]))
        out.append(ForAll([A, B], Implies(And(sub, f(A) == f(B)), A == B), patterns=[z3.MultiPattern(f(A), f(B))]))
    return out


# dict helpers ----------------------------------------------------------
def dict_dom(d):
    a = _ctor_arg(d.t, 0)
    return a if a is not None else _dt[d.ty].dom(d.t)


def dict_val(d):
    a = _ctor_arg(d.t, 1)
    return a if a is not None else _dt[d.ty].val(d.t)


def mk_dict(kt, vt, dom, val):
    ty = ('dict', kt, vt)
    sort_of(ty)
    return V(ty, _dt[ty].mk(dom, val))


def dict_has(d, k):
    return Select(dict_dom(d), k)


def dict_get(d, k):
    return V(d.ty[2], Select(dict_val(d), k))


def dict_set(d, k, v):
    return mk_dict(d.ty[1], d.ty[2], Store(dict_dom(d), k, True), Store(dict_val(d), k, v))


def dict_del(d, k):
    return mk_dict(d.ty[1], d.ty[2], Store(dict_dom(d), k, False), dict_val(d))


def dict_empty(kt, vt):
    return mk_dict(kt, vt, K(sort_of(kt), BoolVal(False)), FreshConst(ArraySort(sort_of(kt), sort_of(vt)), 'ev'))


def dict_eq(a, b):
    x = FreshConst(sort_of(a.ty[1]), 'dk')
    return ForAll([x], And(dict_has(a, x) == dict_has(b, x),
                           Implies(dict_has(a, x), val_eq(dict_get(a, x), dict_get(b, x)))))


def dict_keys(d):
    return V(('set', d.ty[1]), dict_dom(d))


# pair / opt ------------------------------------------------------------
def mk_pair(vals):
    ty = ('pair',) + tuple(v.ty for v in vals)
    sort_of(ty)
    return V(ty, _dt[ty].mk(*[v.t for v in vals]))


def pair_get(v, i):
    a = _ctor_arg(v.t, i)
    return V(v.ty[1 + i], a if a is not None else getattr(_dt[v.ty], 'f%d' % i)(v.t))


def opt_none(et):
    ty = ('opt', et)
    sort_of(ty)
    return V(ty, _dt[ty].none)


def opt_some(v):
    ty = ('opt', v.ty)
    sort_of(ty)
    return V(ty, _dt[ty].some(v.t))


def opt_is_none(v):
    return _dt[v.ty].is_none(v.t)


def opt_val(v):
    return V(v.ty[1], _dt[v.ty].v(v.t))


# block helpers -----------------------------------------------------------
def block_field(b, name):
    srt = sort_of(T_BLOCK)
    for i, (n, t) in enumerate(BLOCK_FIELDS):
        if n == name:
            a = _ctor_arg(b.t, i)
            return V(t, a if a is not None else getattr(srt, 'f_' + n)(b.t))
    raise KeyError(name)


def block_replace(b, **kw):
    srt = sort_of(T_BLOCK)
    args = []
    for i, (n, t) in enumerate(BLOCK_FIELDS):
        if n in kw:
            assert kw[n].ty == t, (n, kw[n].ty, t)
            args.append(kw[n].t)
        else:
            a = _ctor_arg(b.t, i)
            args.append(a if a is not None else getattr(srt, 'f_' + n)(b.t))
    return V(T_BLOCK, srt.mk(*args))


def mk_block(**kw):
    srt = sort_of(T_BLOCK)
    args = []
    for n, t in BLOCK_FIELDS:
        if n in kw:
            assert kw[n].ty == t, (n, kw[n].ty, t)
            args.append(kw[n].t)
        else:
            args.append(FreshConst(sort_of(t), 'unset_' + n))
    return V(T_BLOCK, srt.mk(*args))


def inst_field(b, name):
    srt = sort_of(T_INST)
    for n, t in INST_FIELDS:
        if n == name:
            return V(t, getattr(srt, 'i_' + n)(b.t))
    raise KeyError(name)


# generic equality ----------------------------------------------------------
def val_eq(a, b, fields=None):
    """Python `==` between two symbolic values (extensional where Python is)."""
    if a.ty == T_NONE or b.ty == T_NONE:
        if a.ty == T_NONE and b.ty == T_NONE:
            return BoolVal(True)
        o = b if a.ty == T_NONE else a
        if o.ty[0] == 'opt':
            return opt_is_none(o)
        return BoolVal(False)
    if a.ty[0] == 'opt' and b.ty[0] != 'opt':
        return And(Not(opt_is_none(a)), val_eq(opt_val(a), b))
    if b.ty[0] == 'opt' and a.ty[0] != 'opt':
        return val_eq(b, a)
    if a.ty != b.ty:
        if {a.ty[0], b.ty[0]} == {'int', 'cls'}:
            return a.t == b.t
        raise TypeError('== between %r and %r' % (a.ty, b.ty))
    k = a.ty[0]
    if k in ('tmap', 'heap'):
        return a.t == b.t
    if k == 'seq':
        return seq_eq(a, b)
    if k == 'set':
        return set_eq(a, b)
    if k == 'dict':
        return dict_eq(a, b)
    if k == 'pair':
        return And(*[val_eq(pair_get(a, i), pair_get(b, i)) for i in range(len(a.ty) - 1)])
    if k == 'block':
        return block_eq(a, b)
    if k == 'opt':
        return Or(And(opt_is_none(a), opt_is_none(b)),
                  And(Not(opt_is_none(a)), Not(opt_is_none(b)), val_eq(opt_val(a), opt_val(b))))
    return a.t == b.t


# fields that take part in dataclass __eq__ for a given class are decided by
# the class table (pyvc.source); block_eq compares every modelled field, which
# is at least as strong as the dataclass-generated __eq__ of any subclass.
def block_eq(a, b):
    return And(*[val_eq(block_field(a, n), block_field(b, n)) for n, _ in BLOCK_FIELDS])


def base_axioms():
    """Axioms that hold in every VC."""
    ax = []
    x = Const('ax!x', Name)
    ax.append(ForAll([x], ord_inv(ord_f(x)) == x, patterns=[ord_f(x)]))
    ax += literal_axioms()
    ax += card_axioms()
    ax += wf_axioms()
    return ax
