"""Debug helper: per-part verdicts of the obligations matching a substring."""
import sys, z3, time
import contracts  # noqa
from pyvc.engine import Engine, background
from pyvc.discharge import check_one
from pyvc.contract import REGISTRY

qual = [q for q in REGISTRY if sys.argv[1] in q][0]
pat = sys.argv[2]
to = int(sys.argv[3]) if len(sys.argv) > 3 else 8000
dump = len(sys.argv) > 4
e = Engine(REGISTRY[qual])
obls = e.generate()
bg = background(e)
for i, o in enumerate(obls):
    if pat in o.name:
        v, m, dt, w = check_one(o.hyps, o.goal, bg, to)
        print(i, o.name, v, round(dt, 2), 'hyps=%d' % len(o.hyps))
        if dump and v != 'proved':
            for h in o.hyps:
                print('H', h)
            print('G', o.goal)
