"""E1 pyvc: symbolic execution of the real function bodies against sidecar
contracts, producing named verification conditions (DESIGN 2.2).

Part 1: state, obligations and the expression evaluator (shared by code and
contract text)."""
from __future__ import annotations
import ast
import os
import z3
from z3 import And, Or, Not, Implies, If, ForAll, Exists, Select, Store, IntVal, BoolVal

from . import smt as S
from .smt import V, VObj, NONE, T_INT, T_BOOL, T_NAME, T_NONE, T_BLOCK, T_CLS, T_SEQN, T_SETN
from . import source as SRC
from .contract import Contract, LoopSpec, REGISTRY, OBJ_CLASSES, OBJ_MODULE


class Unsupported(Exception):
    """The function left the supported subset (verdict: undecided, never a violation)."""


class Obligation:
    def __init__(self, name, hyps, goal, kind, info=None):
        self.name = name
        self.hyps = list(hyps)
        self.goal = goal
        self.kind = kind
        self.info = info or {}


class Path:
    def __init__(self, env=None, hyps=None):
        self.env = env if env is not None else {}
        self.hyps = hyps if hyps is not None else []
        self.guards = []          # short-circuit guards during expression evaluation

    def copy(self):
        p = Path({k: (v.copy() if isinstance(v, VObj) else v) for k, v in self.env.items()}, list(self.hyps))
        return p

    def assume(self, f):
        if self.guards:
            f = Implies(And(*self.guards), f)
        self.hyps.append(f)
        return f


class Namespace:
    """`old`, `entry`: attribute access gives a saved value."""

    def __init__(self, env):
        self.env = env


MUTATING_METHODS = {'append', 'pop', 'extend', 'remove', 'add', 'discard', 'update',
                    'difference_update', 'clear', 'insert', 'popleft'}


def as_bool(v):
    """Python truthiness."""
    if isinstance(v, VObj):
        return BoolVal(True)
    k = v.ty[0]
    if k == 'bool':
        return v.t
    if k == 'int':
        return v.t != 0
    if k == 'seq':
        return S.seq_n(v) > 0
    if k == 'set':
        x = z3.FreshConst(S.sort_of(v.ty[1]), 'tx')
        return Exists([x], Select(v.t, x))
    if k == 'dict':
        x = z3.FreshConst(S.sort_of(v.ty[1]), 'tx')
        return Exists([x], S.dict_has(v, x))
    if k == 'none':
        return BoolVal(False)
    if k == 'opt':
        return And(Not(S.opt_is_none(v)), as_bool(S.opt_val(v)))
    if k == 'name':
        return v.t != S.name_lit('').t
    if k in ('pair', 'block'):
        return BoolVal(True)
    raise Unsupported('truthiness of %r' % (v.ty,))


def free_names(node, bound=frozenset()):
    """names an expression reads from the enclosing scope (comprehension targets and lambda parameters are bound)"""
    out = set()

    def targets(t):
        return {n.id for n in ast.walk(t) if isinstance(n, ast.Name)}

    def go(n, b):
        if isinstance(n, ast.Name):
            if n.id not in b:
                out.add(n.id)
            return
        if isinstance(n, (ast.ListComp, ast.SetComp, ast.GeneratorExp, ast.DictComp)):
            b2 = set(b)
            for g in n.generators:
                go(g.iter, b2)
                b2 |= targets(g.target)
                for c in g.ifs:
                    go(c, b2)
            if isinstance(n, ast.DictComp):
                go(n.key, b2)
                go(n.value, b2)
            else:
                go(n.elt, b2)
            return
        if isinstance(n, ast.Lambda):
            go(n.body, set(b) | {a.arg for a in n.args.args})
            return
        for c in ast.iter_child_nodes(n):
            go(c, b)
    go(node, set(bound))
    return out


class Evaluator:
    """Evaluates ast expressions to symbolic values.  `spec` mode: contract text
    (no obligations are generated, quantifier forms allowed)."""

    def __init__(self, engine, modname, cls_name=None):
        self.eng = engine
        self.modname = modname
        self.cls_name = cls_name
        self.qdepth = 0
        self.bound = []
        self.last_trigger = None

    # -- helpers --------------------------------------------------------
    def oblige(self, path, kind, site, goal, exc=None):
        self.eng.add_obligation(path, kind, site, goal, exc)

    def ev(self, node, path, spec=False):
        m = getattr(self, 'ev_' + type(node).__name__, None)
        if m is None:
            raise Unsupported('expression ' + type(node).__name__)
        return m(node, path, spec)

    def ev_bool(self, node, path, spec=False):
        return as_bool(self.ev(node, path, spec))

    # -- atoms ----------------------------------------------------------
    def ev_Constant(self, node, path, spec):
        v = node.value
        if isinstance(v, bool):
            return S.vbool(v)
        if isinstance(v, int):
            return S.vint(v)
        if isinstance(v, str):
            return S.name_lit(v)
        if v is None:
            return NONE
        raise Unsupported('constant %r' % (v,))

    def ev_Name(self, node, path, spec):
        n = node.id
        if n in path.env:
            al = path.env.get('$aliases')
            if al and any(a[0] == n for a in al.values()):
                self.eng.flush_aliases(path, container=n)
            return path.env[n]
        if n in ('True', 'False'):
            return S.vbool(n == 'True')
        g = SRC.resolve_global(self.modname, n)
        if g is None:
            raise Unsupported('unbound name %s' % n)
        return self.global_value(g, path, spec)

    def global_value(self, g, path, spec):
        if g[0] == 'const':
            sub = Evaluator(self.eng, g[1])
            return sub.ev(g[2], path, True)
        if g[0] == 'class':
            cs = SRC.block_classes()
            if g[2] in cs:
                return V(T_CLS, IntVal(cs[g[2]]['id']))
            return ('classref', g[1], g[2])
        if g[0] == 'func':
            return ('funcref', g[1] + ':' + g[2])
        if g[0] == 'module':
            return ('moduleref', g[1])
        if g[0] in ('ext', 'extmodule'):
            return ('extref',) + tuple(g[1:])
        raise Unsupported('global %r' % (g,))

    # -- attribute ------------------------------------------------------
    def ev_Attribute(self, node, path, spec):
        # old.x / entry.x namespaces
        if isinstance(node.value, ast.Name) and isinstance(path.env.get(node.value.id), Namespace):
            ns = path.env[node.value.id]
            if node.attr not in ns.env:
                raise Unsupported('no %s.%s' % (node.value.id, node.attr))
            return ns.env[node.attr]
        base = self.ev(node.value, path, spec)
        return self.get_attr(base, node.attr, path, spec, node)

    def get_attr(self, base, attr, path, spec, node=None):
        if isinstance(base, tuple) and base[0] == 'moduleref':
            g = SRC.resolve_global(base[1], attr)
            if g is None:
                raise Unsupported('no %s.%s' % (base[1], attr))
            return Evaluator(self.eng, base[1]).global_value(g, path, spec)
        if isinstance(base, tuple) and base[0] == 'extref':
            return ('extref',) + base[1:] + (attr,)
        if isinstance(base, VObj):
            if attr in base.f:
                return base.f[attr]
            if base.cls == 'SCFG' and attr == 'concealed_region_view':
                return VObj('ConcealedRegionView', {'scfg': base})        # the property: ConcealedRegionView(self)
            return ('boundmethod', base, attr)
        if isinstance(base, V) and base.ty == T_BLOCK:
            fields = [n for n, _ in S.BLOCK_FIELDS]
            if attr in fields:
                return S.block_field(base, attr)
            return self.eng.block_member(self, base, attr, path, spec)
        if isinstance(base, V) and base.ty == S.T_INST:
            return S.inst_field(base, attr)
        if isinstance(base, V) and base.ty == S.T_SUB and attr == 'graph':
            return self.sub_graph(base, path, node)
        if isinstance(base, V) and base.ty == S.T_SUB:
            return ('submethod', base, attr, node.value if node is not None else None)
        if isinstance(base, V):
            return ('valmethod', base, attr, node.value if node is not None else None)
        raise Unsupported('attribute %s of %r' % (attr, base))

    def sub_graph(self, base, path, node=None):
        """block dictionary of a region's sub-graph: read from the heap of the state the expression is rooted in
        (`old.` / `entry.` / `it0.` namespaces carry their own heap); outside heap mode an uninterpreted function"""
        heap = path.env.get('$heap')
        n = node
        while n is not None and not isinstance(n, ast.Name):
            n = getattr(n, 'value', None) if isinstance(n, (ast.Attribute, ast.Subscript)) else None
        if n is not None and isinstance(path.env.get(n.id), Namespace):
            heap = path.env[n.id].env.get('$heap', heap)
        if heap is None:
            return S.sub_graph(base)
        return V(('dict', T_NAME, T_BLOCK), Select(heap.t, base.t))

    # -- containers -----------------------------------------------------
    def ev_Tuple(self, node, path, spec):
        return self.seq_literal(node, path, spec)

    def ev_List(self, node, path, spec):
        return self.seq_literal(node, path, spec)

    def seq_literal(self, node, path, spec, et=None):
        if any(isinstance(e, ast.Starred) for e in node.elts):
            # [*xs, y] : concatenation
            acc = None
            for e in node.elts:
                if isinstance(e, ast.Starred):
                    part = self.ev(e.value, path, spec)
                else:
                    x = self.ev(e, path, spec)
                    part = S.seq_from_list(x.ty, [x])
                acc = part if acc is None else self.eng.seq_concat(acc, part, path)
            return acc
        vals = [self.ev(e, path, spec) for e in node.elts]
        if not vals:
            if et is None:
                return ('emptyseq',)
            return S.seq_from_list(et, [])
        tys = {v.ty for v in vals if isinstance(v, V)}
        if len(tys) == 1 and all(isinstance(v, V) for v in vals) and isinstance(node, ast.List):
            return S.seq_from_list(vals[0].ty, vals)
        if len(tys) == 1 and all(isinstance(v, V) for v in vals) and self.eng.tuple_as_seq(node):
            return S.seq_from_list(vals[0].ty, vals)
        if all(isinstance(v, V) for v in vals):
            return S.mk_pair(vals)
        return ('pytuple', vals)

    def ev_Set(self, node, path, spec):
        vals = [self.ev(e, path, spec) for e in node.elts]
        s = S.set_empty(vals[0].ty)
        for v in vals:
            s = V(s.ty, Store(s.t, v.t, True))
        return s

    def ev_Dict(self, node, path, spec):
        if not node.keys:
            raise Unsupported('empty dict literal of unknown type')
        ks = [self.ev(k, path, spec) for k in node.keys]
        vs = [self.ev(v, path, spec) for v in node.values]
        d = S.dict_empty(ks[0].ty, vs[0].ty)
        for k, v in zip(ks, vs):
            d = S.dict_set(d, k.t, v.t)
        return d

    # -- subscripts -----------------------------------------------------
    def ev_Subscript(self, node, path, spec):
        base = self.ev(node.value, path, spec)
        if isinstance(base, tuple) and base[0] == 'pytuple':
            i = node.slice.value
            return base[1][i]
        if isinstance(node.slice, ast.Slice):
            return self.eng.seq_slice(self, base, node.slice, path, spec)
        idx = self.ev(node.slice, path, spec)
        self._cur_node = node.value
        try:
            return self.subscript(base, idx, path, spec, ast.unparse(node))
        finally:
            self._cur_node = None

    def subscript(self, base, idx, path, spec, site):
        if isinstance(base, VObj) and base.cls == 'ConcealedRegionView':
            base = base.f['scfg']             # ConcealedRegionView.__getitem__ returns self.scfg[item] (contract proved separately)
        if isinstance(base, VObj) and base.cls == 'SCFG':
            base = base.f['graph']
        if isinstance(base, V) and base.ty == S.T_SUB:
            base = self.sub_graph(base, path, getattr(self, '_cur_node', None))   # SCFG.__getitem__ of the region's sub-graph
        k = base.ty[0]
        if k == 'seq':
            n = S.seq_n(base)
            i = idx.t
            if not z3.is_int_value(i) and self.eng.term_size(i) <= 3:
                i = z3.simplify(i)              # -1 is a unary minus applied to 1
            if z3.is_int_value(i) and i.as_long() < 0:
                i = n + i
            if not spec:
                self.oblige(path, 'noraise', site, And(0 <= i, i < n), 'IndexError')
            return S.seq_get(base, i)
        if k == 'dict':
            if not spec:
                self.oblige(path, 'noraise', site, S.dict_has(base, idx.t), 'KeyError')
            return S.dict_get(base, idx.t)
        if k == 'pair':
            assert z3.is_int_value(idx.t)
            return S.pair_get(base, idx.t.as_long())
        if k == 'tmap':
            return V(base.ty[2], Select(base.t, idx.t))
        if k == 'opt':
            # subscripting None raises TypeError
            if not spec:
                self.oblige(path, 'noraise', site, Not(S.opt_is_none(base)), 'TypeError')
            return self.subscript(S.opt_val(base), idx, path, spec, site)
        raise Unsupported('subscript of %r' % (base.ty,))

    # -- operators ------------------------------------------------------
    def ev_BoolOp(self, node, path, spec):
        vals = []
        n0 = len(path.guards)
        is_and = isinstance(node.op, ast.And)
        for e in node.values:
            b = self.ev_bool(e, path, spec)
            vals.append(b)
            path.guards.append(b if is_and else Not(b))
        del path.guards[n0:]
        return S.vbool(And(*vals) if is_and else Or(*vals))

    def ev_UnaryOp(self, node, path, spec):
        if isinstance(node.op, ast.Not):
            return S.vbool(Not(self.ev_bool(node.operand, path, spec)))
        if isinstance(node.op, ast.USub):
            return S.vint(-self.ev(node.operand, path, spec).t)
        raise Unsupported('unary op')

    def ev_IfExp(self, node, path, spec):
        c = self.ev_bool(node.test, path, spec)
        path.guards.append(c)
        a = self.ev(node.body, path, spec)
        path.guards.pop()
        path.guards.append(Not(c))
        b = self.ev(node.orelse, path, spec)
        path.guards.pop()
        def empty_like(m, o):
            if isinstance(m, tuple) and m and m[0] == 'emptyset' and isinstance(o, V) and o.ty[0] == 'set':
                return S.set_empty(o.ty[1])
            if isinstance(m, tuple) and m and m[0] == 'emptyseq' and isinstance(o, V) and o.ty[0] == 'seq':
                return S.seq_from_list(o.ty[1], [])
            return m
        a, b = empty_like(a, b), empty_like(b, a)
        if isinstance(a, V) and isinstance(b, V) and a.ty == ('opt', b.ty) and ast.dump(node.test) == ast.dump(node.body):
            a = S.opt_val(a)          # `x if x else y`: x is truthy, hence not None, where it is used
        if not isinstance(a, V) or not isinstance(b, V) or a.ty != b.ty:
            raise Unsupported('if-expression with different types')
        return V(a.ty, If(c, a.t, b.t))

    def ev_BinOp(self, node, path, spec):
        a = self.ev(node.left, path, spec)
        b = self.ev(node.right, path, spec)
        op = type(node.op)
        if a.ty == T_INT and b.ty == T_INT:
            if op is ast.Add:
                return S.vint(a.t + b.t)
            if op is ast.Sub:
                return S.vint(a.t - b.t)
            if op is ast.Mult:
                return S.vint(a.t * b.t)
            if op is ast.Mod and z3.is_int_value(b.t) and b.t.as_long() > 0:
                return S.vint(a.t % b.t)       # Python's % with a positive modulus is z3's (result in [0, m))
            if op is ast.FloorDiv and z3.is_int_value(b.t) and b.t.as_long() > 0:
                return S.vint(a.t / b.t)
        if a.ty == T_NAME and b.ty == T_NAME and op is ast.Add:
            return V(T_NAME, S.concat_f(a.t, b.t))
        if a.ty[0] == 'set' and a.ty == b.ty:
            x = z3.FreshConst(S.sort_of(a.ty[1]), 'bx')
            if op is ast.BitOr:
                return V(a.ty, z3.Lambda([x], Or(Select(a.t, x), Select(b.t, x))))
            if op is ast.BitAnd:
                return V(a.ty, z3.Lambda([x], And(Select(a.t, x), Select(b.t, x))))
            if op is ast.Sub:
                return V(a.ty, z3.Lambda([x], And(Select(a.t, x), Not(Select(b.t, x)))))
        if a.ty[0] == 'seq' and a.ty == b.ty and op is ast.Add:
            return self.eng.seq_concat(a, b, path)
        raise Unsupported('binary op %s on %r, %r' % (op.__name__, a.ty, b.ty))

    def ev_Compare(self, node, path, spec):
        left = self.ev(node.left, path, spec)
        out = []
        for op, rn in zip(node.ops, node.comparators):
            right = self.ev(rn, path, spec)
            self._cur_node, self._cur_path = rn, path
            try:
                out.append(self.compare(op, left, right, path, spec))
            finally:
                self._cur_node, self._cur_path = None, None
            left = right
        return S.vbool(And(*out) if len(out) > 1 else out[0])

    def compare(self, op, a, b, path, spec):
        t = type(op)
        if t in (ast.Eq, ast.NotEq):
            e = self.eq(a, b)
            return e if t is ast.Eq else Not(e)
        if t in (ast.Is, ast.IsNot):
            if isinstance(a, V) and isinstance(b, V) and (a.ty == T_NONE or b.ty == T_NONE or a.ty[0] in ('cls', 'bool', 'int')):
                e = S.val_eq(a, b)
                return e if t is ast.Is else Not(e)
            raise Unsupported('`is` on %r' % (a,))
        if t in (ast.In, ast.NotIn):
            e = self.contains(b, a)
            return e if t is ast.In else Not(e)
        if a.ty == T_INT and b.ty == T_INT:
            x, y = a.t, b.t
        elif a.ty == T_NAME and b.ty == T_NAME:
            x, y = S.ord_f(a.t), S.ord_f(b.t)
        else:
            raise Unsupported('ordering on %r' % (a.ty,))
        return {ast.Lt: x < y, ast.LtE: x <= y, ast.Gt: x > y, ast.GtE: x >= y}[t]

    def eq(self, a, b):
        for x, y in ((a, b), (b, a)):
            if isinstance(x, tuple) and x[0] == 'emptyseq' and isinstance(y, V) and y.ty[0] == 'seq':
                return S.seq_n(y) == 0
        if isinstance(a, tuple) or isinstance(b, tuple):
            if isinstance(a, tuple) and isinstance(b, tuple) and a[0] == 'pytuple' and b[0] == 'pytuple':
                return And(*[self.eq(x, y) for x, y in zip(a[1], b[1])])
            raise Unsupported('== on %r' % (a,))
        if isinstance(a, VObj) or isinstance(b, VObj):
            raise Unsupported('== on objects')
        # seq vs pair (a tuple literal compared with a sequence)
        if a.ty[0] == 'pair' and b.ty[0] == 'seq':
            a = self.pair_to_seq(a, b.ty[1])
        if b.ty[0] == 'pair' and a.ty[0] == 'seq':
            b = self.pair_to_seq(b, a.ty[1])
        if self.eng.intensional_eq and a.ty == b.ty and a.ty[0] == 'block':
            return a.t == b.t
        return S.val_eq(a, b)

    def pair_to_seq(self, p, et):
        vals = [S.pair_get(p, i) for i in range(len(p.ty) - 1)]
        return S.seq_from_list(et, vals)

    def contains(self, c, x):
        if isinstance(c, VObj) and c.cls == 'ConcealedRegionView':
            c = c.f['scfg']
        if isinstance(c, VObj) and c.cls == 'SCFG':
            c = c.f['graph']
        if isinstance(c, V) and c.ty == S.T_SUB:
            c = self.sub_graph(c, self._cur_path, getattr(self, '_cur_node', None)) if getattr(self, '_cur_path', None) is not None else S.sub_graph(c)
        k = c.ty[0]
        if k == 'seq':
            return S.seq_mem(c, x.t)
        if k == 'set':
            return S.set_mem(c, x.t)
        if k == 'dict':
            return S.dict_has(c, x.t)
        raise Unsupported('`in` on %r' % (c.ty,))

    # -- comprehensions & generators --------------------------------------
    def domain_of(self, gen, path, spec):
        """For `for <target> in <iter> [if ...]`: returns (bind, dom) where
        bind(q) binds the target(s) in path.env for a bound variable q and
        dom(q) is the membership formula; qsort is the sort of q."""
        it = gen.iter
        tgt = gen.target
        # range(...)
        if isinstance(it, ast.Call) and isinstance(it.func, ast.Name) and it.func.id == 'range':
            args = [self.ev(a, path, spec).t for a in it.args]
            lo, hi = (IntVal(0), args[0]) if len(args) == 1 else (args[0], args[1])
            return T_INT, (lambda q: {tgt.id: V(T_INT, q)}), (lambda q: And(lo <= q, q < hi))
        if isinstance(it, ast.Call) and isinstance(it.func, ast.Name) and it.func.id == 'all_subs':
            # every sub-graph identity of the heap (at run time: the sub-graphs nested under the arguments)
            return S.T_SUB, (lambda q: {tgt.id: V(S.T_SUB, q)}), (lambda q: BoolVal(True))
        if isinstance(it, ast.Call) and isinstance(it.func, ast.Name) and it.func.id == 'enumerate':
            seq = self.ev(it.args[0], path, spec)
            a, b = tgt.elts
            return T_INT, (lambda q: {a.id: V(T_INT, q), b.id: S.seq_get(seq, q)}), \
                (lambda q: And(0 <= q, q < S.seq_n(seq)))
        if isinstance(it, ast.Call) and isinstance(it.func, ast.Name) and it.func.id == 'zip':
            s1 = self.ev(it.args[0], path, spec)
            s2 = self.ev(it.args[1], path, spec)
            a, b = tgt.elts
            return T_INT, (lambda q: {a.id: S.seq_get(s1, q), b.id: S.seq_get(s2, q)}), \
                (lambda q: And(0 <= q, q < S.seq_n(s1), q < S.seq_n(s2)))
        if isinstance(it, ast.Call) and isinstance(it.func, ast.Attribute) and it.func.attr in ('items', 'keys', 'values') \
                and not it.args:
            d = self.ev(it.func.value, path, spec)
            if isinstance(d, V) and d.ty[0] == 'dict':
                kt = d.ty[1]
                if it.func.attr == 'items':
                    a, b = tgt.elts
                    return kt, (lambda q: {a.id: V(kt, q), b.id: S.dict_get(d, q)}), (lambda q: S.dict_has(d, q))
                if it.func.attr == 'keys':
                    return kt, (lambda q: {tgt.id: V(kt, q)}), (lambda q: S.dict_has(d, q))
                return kt, (lambda q: {tgt.id: S.dict_get(d, q)}), (lambda q: S.dict_has(d, q))
        c = self.ev(it, path, spec)
        if isinstance(c, VObj) and c.cls == 'SCFG':
            c = c.f['graph']
        k = c.ty[0]
        if k == 'seq':
            self.last_trigger = lambda q: Select(S.seq_arr(c), q)
            return T_INT, (lambda q: self.bind_target(tgt, S.seq_get(c, q))), (lambda q: And(0 <= q, q < S.seq_n(c)))
        if k == 'set':
            self.last_trigger = lambda q: Select(c.t, q)
            return c.ty[1], (lambda q: {tgt.id: V(c.ty[1], q)}), (lambda q: Select(c.t, q))
        if k == 'dict':
            self.last_trigger = lambda q: Select(S.dict_dom(c), q)
            return c.ty[1], (lambda q: {tgt.id: V(c.ty[1], q)}), (lambda q: S.dict_has(c, q))
        if k == 'tmap' and spec:
            # spec only: `for d in T` ranges over every key (a key that was never written holds the empty value, so
            # clauses of the form `... for d in T for s in T[d]` lose nothing; at run time the written keys are visited)
            return c.ty[1], (lambda q: {tgt.id: V(c.ty[1], q)}), (lambda q: BoolVal(True))
        raise Unsupported('comprehension over %r' % (c.ty,))

    def bind_target(self, tgt, val):
        if isinstance(tgt, ast.Name):
            return {tgt.id: val}
        if isinstance(tgt, ast.Tuple) and val.ty[0] == 'pair':
            out = {}
            for i, e in enumerate(tgt.elts):
                out.update(self.bind_target(e, S.pair_get(val, i)))
            return out
        raise Unsupported('target')

    def quantify(self, gens, body_fn, path, spec, universal):
        """all(...)/any(...) over nested generators."""
        if not gens:
            return body_fn()
        g = gens[0]
        self.last_trigger = None
        qt, bind, dom = self.domain_of(g, path, spec)
        trig = self.last_trigger
        q = z3.FreshConst(S.sort_of(qt), 'q')
        saved = dict(path.env)
        path.env.update(bind(q))
        self.qdepth += 1
        self.bound.append(q)
        n0 = len(path.guards)
        try:
            # obligations raised while evaluating the filters / the body hold under the generator's domain
            conds = [dom(q)]
            path.guards.append(conds[0])
            for c in g.ifs:
                cv = self.ev_bool(c, path, spec)
                conds.append(cv)
                path.guards.append(cv)
            inner = self.quantify(gens[1:], body_fn, path, spec, universal)
        finally:
            del path.guards[n0:]
            self.qdepth -= 1
            self.bound.pop()
        path.env.clear()
        path.env.update(saved)
        if universal:
            body = Implies(And(*conds), inner)
            if trig is not None:
                # trigger on the element term of the iterated collection (sequence position / set membership)
                return S.forall_p([q], body, [trig(q)])
            return ForAll([q], body)
        return Exists([q], And(*conds + [inner]))

    def text_key(self, node, path):
        """(source text, values of its free names): the same expression over the same state denotes the same value"""
        k = ('text',) + self.state_key(node, path)
        self.eng.keepalive.append([path.env.get(n.id) for n in ast.walk(node) if isinstance(n, ast.Name)])
        return k

    def ev_SetComp(self, node, path, spec):
        # {elt for ... if ...}  as a membership predicate
        tk = None
        if not self.eng.in_axiom:
            tk = self.text_key(node, path)
            hit = self.eng.set_cache.get(tk)
            if hit is not None:
                sc, ax = hit[0], hit[1]
                if not any(ax.eq(h) for h in path.hyps):
                    path.hyps.append(ax)
                return V(hit[2], sc)
        saved = dict(path.env)
        probe = self.probe_type(node.elt, node.generators, path, spec)
        y = z3.FreshConst(S.sort_of(probe), 'y')

        def body():
            return self.ev(node.elt, path, spec).t == y
        f = None
        g0 = node.generators[0]
        if len(node.generators) == 1 and isinstance(node.elt, ast.Name) and isinstance(g0.target, ast.Name) and node.elt.id == g0.target.id:
            # {x for x in S if c(x)} over a set or dict: membership is S[y] and c(y), no existential needed
            qt, bind, dom = self.domain_of(g0, path, spec)
            if qt == probe and qt != T_INT:
                path.env.update(bind(y))
                self.qdepth += 1
                self.bound.append(y)
                n0 = len(path.guards)
                try:
                    conds = [dom(y)]
                    path.guards.append(conds[0])
                    for c in g0.ifs:
                        cv = self.ev_bool(c, path, spec)
                        conds.append(cv)
                        path.guards.append(cv)
                    f = And(*conds)
                finally:
                    del path.guards[n0:]
                    self.qdepth -= 1
                    self.bound.pop()
                    path.env.clear()
                    path.env.update(saved)
        if f is None:
            self.qdepth += 1
            try:
                f = self.quantify(node.generators, body, path, spec, False)
            finally:
                self.qdepth -= 1
        path.env.clear()
        path.env.update(saved)
        if self.eng.in_axiom or not self.is_closed(f):
            return V(('set', probe), z3.Lambda([y], f))
        # top level: a named set with its defining axiom (friendlier to the solver than a lambda);
        # the same text over the same state denotes the same constant
        # semantic key: the membership formula itself over a canonical variable (z3 terms are hash-consed, so two
        # comprehensions with structurally identical bodies - e.g. the code's and the contract's - share one constant)
        canon = z3.Const('canon!y!' + S.mangle(probe), S.sort_of(probe))
        fc = z3.substitute(f, (y, canon))
        key = ('setbody', fc.get_id())
        self.eng.keepalive.append(fc)
        hit = self.eng.set_cache.get(key)
        if hit is not None:
            sc, ax = hit
        else:
            sc = z3.FreshConst(S.sort_of(('set', probe)), 'setc')
            ax = ForAll([y], Select(sc, y) == f, patterns=[Select(sc, y)])
            # redundant introduction form (forall generators. conds => elt in sc): lets
            # pattern-based instantiation find members that have no `sc[..]` term yet
            saved2 = dict(path.env)
            self.qdepth += 1
            try:
                intro = self.quantify(node.generators, lambda: Select(sc, self.ev(node.elt, path, spec).t), path, spec, True)
            finally:
                self.qdepth -= 1
                path.env.clear()
                path.env.update(saved2)
            ax = And(ax, intro)
            self.eng.set_cache[key] = (sc, ax)
        if not any(ax.eq(h) for h in path.hyps):
            path.hyps.append(ax)
        if tk is not None:
            self.eng.set_cache[tk] = (sc, ax, ('set', probe))
        return V(('set', probe), sc)

    def is_closed(self, term):
        """True when the term mentions none of the currently bound variables."""
        if not self.bound:
            return True
        ids = {b.get_id() for b in self.bound}
        seen, stack = set(), [term]
        while stack:
            x = stack.pop()
            if x.get_id() in seen:
                continue
            seen.add(x.get_id())
            if x.get_id() in ids:
                return False
            if z3.is_quantifier(x):
                stack.append(x.body())
            elif z3.is_app(x):
                stack.extend(x.children())
        return True

    def named_set_of_seq(self, seq, path):
        """set(seq) as a named constant with both directions of its definition (cached per sequence term)."""
        key = ('setof', seq.t.get_id())
        hit = self.eng.set_cache.get(key)
        if hit is None:
            et = seq.ty[1]
            # set(seq) as a function of the sequence value: equal sequences (by congruence) give equal sets
            sc = ufun('setof!' + S.mangle(et), S.sort_of(seq.ty), S.sort_of(('set', et)))(seq.t)
            y = z3.FreshConst(S.sort_of(et), 'sy')
            m = z3.FreshInt('sm')
            n = S.seq_n(seq)
            ax = And(ForAll([y], Select(sc, y) == Exists([m], And(0 <= m, m < n, Select(S.seq_arr(seq), m) == y)),
                            patterns=[Select(sc, y)]),
                     S.forall_p([m], Implies(And(0 <= m, m < n), Select(sc, Select(S.seq_arr(seq), m))),
                                [Select(S.seq_arr(seq), m)]))
            hit = (sc, ax)
            self.eng.set_cache[key] = hit
        sc, ax = hit
        if not any(ax.eq(h) for h in path.hyps):
            path.hyps.append(ax)
        return V(('set', seq.ty[1]), sc)

    def state_key(self, node, path):
        def vid(v):
            if isinstance(v, V):
                return ('t', v.t.get_id() if v.t is not None else 0)
            if isinstance(v, VObj):
                return ('o',) + tuple((k, vid(x)) for k, x in sorted(v.f.items()))
            if isinstance(v, Namespace):
                return ('ns',) + tuple((k, vid(x)) for k, x in sorted(v.env.items()) if isinstance(x, (V, VObj)))
            return ('x', id(v))
        names = sorted(free_names(node))
        return (ast.dump(node), self.modname) + tuple((n, vid(path.env[n])) for n in names if n in path.env)

    def probe_type(self, elt, gens, path, spec):
        saved = dict(path.env)
        try:
            for g in gens:
                qt, bind, dom = self.domain_of(g, path, spec)
                path.env.update(bind(z3.FreshConst(S.sort_of(qt), 'p')))
            return self.ev(elt, path, spec).ty
        finally:
            path.env.clear()
            path.env.update(saved)

    def ev_GeneratorExp(self, node, path, spec):
        return ('genexp', node)

    def ev_ListComp(self, node, path, spec):
        return self.eng.list_comp(self, node, path, spec)

    def ev_DictComp(self, node, path, spec):
        return self.eng.dict_comp(self, node, path, spec)

    def ev_Call(self, node, path, spec):
        return self.eng.call(self, node, path, spec)

    def ev_Lambda(self, node, path, spec):
        return ('lambda', node)


# ======================================================================
# Part 2: the engine — calls, builtins, sequence library, statements, loops
# ======================================================================
DEFAULTS = None
BACKPTR = ('back pointers are not modelled: writes of RegionBlock.parent_region and of SCFG.region (object.__setattr__ / constructor '
           'keyword) are dropped; no contract may mention them (they are checked by the bounded hierarchy clause)')


def block_defaults():
    """Canonical values for constructor fields that are not passed."""
    global DEFAULTS
    if DEFAULTS is None:
        DEFAULTS = {}
        for n, t in S.BLOCK_FIELDS:
            if t == T_INT:
                DEFAULTS[n] = S.vint(-1)
            elif t == S.T_SUB:
                DEFAULTS[n] = V(S.T_SUB, IntVal(-1))
            elif t == T_NAME:
                DEFAULTS[n] = S.name_lit('')
            elif t[0] == 'seq':
                DEFAULTS[n] = S.seq_from_list(t[1], [])
            elif t[0] == 'dict':
                DEFAULTS[n] = S.mk_dict(t[1], t[2], z3.K(S.sort_of(t[1]), BoolVal(False)),
                                        z3.K(S.sort_of(t[1]), S.default_term(t[2]) if t[2][0] in ('int', 'bool') else z3.Const('dflt!' + S.mangle(t[2]), S.sort_of(t[2]))))
            elif t == T_CLS:
                DEFAULTS[n] = V(T_CLS, IntVal(0))
    return DEFAULTS


_fun_cache: dict = {}


def ufun(name, *sorts):
    key = (name,) + tuple(str(s) for s in sorts)
    if key not in _fun_cache:
        _fun_cache[key] = z3.Function(name, *sorts)
    return _fun_cache[key]


class Engine:
    def __init__(self, contract: Contract):
        self.c = contract
        self.mod, self.fn, self.cls = SRC.find_function(contract.qual)
        self.obligations: list = []
        self.axioms: list = []          # global axioms introduced on demand (pure-function contracts, sorted, ...)
        self._axiom_keys = set()
        self.catch = None               # try/except support
        self.in_axiom = False
        self.define_result = False
        self.result_defined = False
        self.intensional_eq = False
        self.labels = {}                # id of a hypothesis formula -> clause name (invariants, cuts)
        self.keepalive = []
        self.set_cache = {}
        self.assumptions_used = set()
        self.loop_counter = {}
        self.pre_env = None
        self.known_hyps = []
        self.stats = {'paths': 0}

    # ------------------------------------------------------------ obligations
    def short(self):
        return self.c.qual.split(':')[1]

    def add_obligation(self, path, kind, site, goal, exc=None):
        if self.catch is not None and exc in self.catch['types']:
            self.catch['conds'].append(goal if not path.guards else Implies(And(*path.guards), goal))
            return
        if self.c.view_of and kind in ('noraise', 'call-pre', 'frame', 'decreases') and not any(h in site for h in self.heap_callees):
            # discharged among the main view's obligations (same code, same preconditions): assumed here
            if kind in ('noraise', 'call-pre'):
                path.assume(goal)
            self.assumptions_used.add('obligations of kind noraise / call-pre / frame are those of the main view %s' % self.c.view_of.split(':')[1])
            return
        g = goal
        if exc is not None and exc in self.c.raises and self.pre_env is not None:
            cond = self.spec_bool(self.c.raises[exc], dict(self.pre_env), path)
            g = Or(goal, cond)
        if path.guards:
            g = Implies(And(*path.guards), g)
        name = '%s::%s[%s]' % (self.short(), kind, site)
        clause = site.rsplit(':', 1)[-1]
        self.obligations.append(Obligation(name, path.hyps, g, kind, {'exc': exc, 'clause': clause}))
        if kind in ('noraise', 'call-pre', 'assert', 'cut'):
            f = path.assume(goal)
            if kind == 'cut':
                self.labels[f.get_id()] = clause
            elif site.startswith('assert '):
                # the asserted condition holds afterwards; a proof hint can drop it with '-fact:assert'
                self.labels.setdefault(f.get_id(), 'fact:assert')

    def add_axiom(self, key, formula):
        if key not in self._axiom_keys:
            self._axiom_keys.add(key)
            self.axioms.append(formula)

    # ------------------------------------------------------------ spec text
    def spec_eval(self, text, env, path):
        node = ast.parse(text.strip(), mode='eval').body
        p = Path(dict(env), path.hyps)
        ev = Evaluator(self, self.mod.name, self.cls.name if self.cls else None)
        v = ev.ev(node, p, True)
        return v

    def spec_bool(self, text, env, path, modname=None):
        node = ast.parse(text.strip(), mode='eval').body
        return self.spec_formula(node, env, path, modname)

    def spec_formula(self, node, env, path, modname=None):
        """Compile a boolean contract expression; `X == sorted(S)` is compiled to
        its characterisation (strictly sorted + same elements)."""
        ev = Evaluator(self, modname or self.mod.name, self.cls.name if self.cls else None)
        p = Path(dict(env), path.hyps)
        if p.env.get('$aliases'):
            self.flush_aliases(p)         # outside any quantifier: lists that share a mutable local are brought up to date
        p.guards = path.guards
        return self._formula(ev, node, p)

    def _formula(self, ev, node, p):
        if isinstance(node, ast.BoolOp):
            parts = [self._formula(ev, v, p) for v in node.values]
            return And(*parts) if isinstance(node.op, ast.And) else Or(*parts)
        if isinstance(node, ast.UnaryOp) and isinstance(node.op, ast.Not):
            return Not(self._formula(ev, node.operand, p))
        if isinstance(node, ast.Call) and isinstance(node.func, ast.Name) and node.func.id == 'implies':
            return Implies(self._formula(ev, node.args[0], p), self._formula(ev, node.args[1], p))
        if isinstance(node, ast.Call) and isinstance(node.func, ast.Name) and node.func.id in ('all', 'any') \
                and isinstance(node.args[0], ast.GeneratorExp):
            g = node.args[0]
            return ev.quantify(g.generators, lambda: self._formula(ev, g.elt, p), p, True, node.func.id == 'all')
        if isinstance(node, ast.Compare) and len(node.ops) == 1 and isinstance(node.ops[0], (ast.Eq, ast.NotEq)):
            l, r = node.left, node.comparators[0]
            for a, b in ((l, r), (r, l)):
                if isinstance(b, ast.Call) and isinstance(b.func, ast.Name) and b.func.id == 'sorted':
                    x = ev.ev(a, p, True)
                    s = ev.ev(b.args[0], p, True)
                    s = self.to_set(s)
                    # same elements, stated in both directions with triggers (x[k] is in S; every y of S is some x[k])
                    k_ = z3.FreshInt('sk')
                    y_ = z3.FreshConst(S.sort_of(s.ty[1]), 'sy')
                    k2 = z3.FreshInt('sk2')
                    f = And(S.seq_sorted_strict(x),
                            S.forall_p([k_], Implies(And(0 <= k_, k_ < S.seq_n(x)), Select(s.t, Select(S.seq_arr(x), k_))),
                                       [Select(S.seq_arr(x), k_)]),
                            S.forall_p([y_], Implies(Select(s.t, y_),
                                                     Exists([k2], And(0 <= k2, k2 < S.seq_n(x), Select(S.seq_arr(x), k2) == y_))),
                                       [Select(s.t, y_)]))
                    return f if isinstance(node.ops[0], ast.Eq) else Not(f)
            # assumption side of a pure-function contract: `result == E` fixes the representation of
            # the function symbol's value (the symbol is ours, so this is a definition, not a restriction)
            if self.define_result and isinstance(node.ops[0], ast.Eq) and isinstance(l, ast.Name) and l.id == 'result' \
                    and not self.result_defined:
                a = ev.ev(l, p, True)
                b = ev.ev(r, p, True)
                if isinstance(a, V) and isinstance(b, V) and a.ty == b.ty and a.ty[0] in ('block', 'seq'):
                    self.result_defined = True
                    return a.t == b.t
        return as_bool(ev.ev(node, p, True))

    def to_set(self, v):
        if v.ty[0] == 'set':
            return v
        if v.ty[0] == 'seq':
            return S.seq_to_set(v)
        if v.ty[0] == 'dict':
            return S.dict_keys(v)
        raise Unsupported('to_set %r' % (v.ty,))

    # ------------------------------------------------------------ sequences
    def fresh_seq(self, et, hint='L'):
        return S.fresh(('seq', et), hint)

    def seq_concat(self, a, b, path):
        r = self.fresh_seq(a.ty[1], 'cat')
        k = z3.FreshInt('kc')
        na, nb = S.seq_n(a), S.seq_n(b)
        self.prefix_of[S.seq_arr(r).get_id()] = (S.seq_arr(a), na)
        self.keepalive.extend([S.seq_arr(r), S.seq_arr(a)])
        path.assume(S.seq_n(r) == na + nb)
        path.assume(ForAll([k], Implies(And(0 <= k, k < na), Select(S.seq_arr(r), k) == Select(S.seq_arr(a), k)),
                           patterns=[Select(S.seq_arr(r), k)]))
        path.assume(S.forall_p([k], Implies(And(0 <= k, k < na), Select(S.seq_arr(r), k) == Select(S.seq_arr(a), k)),
                               [Select(S.seq_arr(a), k)]))
        path.assume(S.forall_p([k], Implies(And(0 <= k, k < nb), Select(S.seq_arr(r), k + na) == Select(S.seq_arr(b), k)),
                               [Select(S.seq_arr(b), k)]))
        path.assume(ForAll([k], Implies(And(na <= k, k < na + nb), Select(S.seq_arr(r), k) == Select(S.seq_arr(b), k - na)),
                           patterns=[Select(S.seq_arr(r), k)]))
        return r

    def seq_slice(self, ev, base, sl, path, spec):
        if base.ty[0] != 'seq' or sl.step is not None:
            raise Unsupported('slice')
        n = S.seq_n(base)

        def bound(e, dflt):
            if e is None:
                return dflt
            t = ev.ev(e, path, spec).t
            if z3.is_int_value(t) and t.as_long() < 0:
                return n + t
            return t
        lo, hi = bound(sl.lower, IntVal(0)), bound(sl.upper, n)
        lo2 = If(lo < 0, 0, If(lo > n, n, lo))
        hi2 = If(hi < lo2, lo2, If(hi > n, n, hi))
        r = self.fresh_seq(base.ty[1], 'slc')
        k = z3.FreshInt('ks')
        path.assume(S.seq_n(r) == hi2 - lo2)
        path.assume(ForAll([k], Implies(And(0 <= k, k < hi2 - lo2), Select(S.seq_arr(r), k) == Select(S.seq_arr(base), k + lo2)),
                           patterns=[Select(S.seq_arr(r), k)]))
        path.assume(ForAll([k], Implies(And(lo2 <= k, k < hi2), Select(S.seq_arr(base), k) == Select(S.seq_arr(r), k - lo2)),
                           patterns=[Select(S.seq_arr(base), k)]))
        return r

    def sorted_of(self, s):
        """sorted(set): a function symbol with its characterising axioms."""
        s = self.to_set(s)
        et = s.ty[1]
        f = ufun('sorted_' + S.mangle(et), S.sort_of(s.ty), S.sort_of(('seq', et)))
        idx = ufun('sorted_idx_' + S.mangle(et), S.sort_of(s.ty), S.sort_of(et), z3.IntSort())
        A = z3.Const('ax!S_' + S.mangle(et), S.sort_of(s.ty))
        x = z3.Const('ax!x_' + S.mangle(et), S.sort_of(et))
        k = z3.Int('ax!k')
        L = V(('seq', et), f(A))
        self.add_axiom(('sorted', et), And(
            ForAll([A], S.seq_sorted_strict(L), patterns=[f(A)]),
            ForAll([A, k], Implies(And(0 <= k, k < S.seq_n(L)), Select(A, Select(S.seq_arr(L), k))),
                   patterns=[Select(S.seq_arr(L), k)]),
            ForAll([A, x], Implies(Select(A, x), And(0 <= idx(A, x), idx(A, x) < S.seq_n(L),
                                                      Select(S.seq_arr(L), idx(A, x)) == x)),
                   patterns=[z3.MultiPattern(f(A), Select(A, x))]),
            # explicit instances for the first two positions (gives the solver the terms L[0], L[1])
            ForAll([A], And(Implies(S.seq_n(L) > 0, Select(A, Select(S.seq_arr(L), 0))),
                            Implies(S.seq_n(L) > 1, And(Select(A, Select(S.seq_arr(L), 1)),
                                                        Select(S.seq_arr(L), 0) != Select(S.seq_arr(L), 1)))),
                   patterns=[f(A)])))
        self.assumptions_used.add('sets are finite (sorted(S) exists)')
        return V(('seq', et), f(s.t))

    def list_of_set(self, s, path):
        """list(set)/iteration snapshot: some distinct sequence with the same elements (order arbitrary)."""
        s = self.to_set(s)
        et = s.ty[1]
        r = self.fresh_seq(et, 'ls')
        k = z3.FreshInt('kl')
        x = z3.FreshConst(S.sort_of(et), 'xl')
        path.assume(S.seq_distinct(r))
        path.assume(ForAll([k], Implies(And(0 <= k, k < S.seq_n(r)), Select(s.t, Select(S.seq_arr(r), k))),
                           patterns=[Select(S.seq_arr(r), k)]))
        path.assume(ForAll([x], Implies(Select(s.t, x), S.seq_mem(r, x))))
        f = path.assume(S.seq_n(r) == S.set_card(s))     # a duplicate-free enumeration of S has |S| elements
        self.labels.setdefault(f.get_id(), 'fact:card-list')
        self.assumptions_used.add('sets are finite (list(S) exists)')
        return r

    def seq_filter(self, c, keep, path):
        """[x for x in c if keep(x)] for a sequence c: order-preserving filter
        given by rank/src maps (first-order consequences of the definition)."""
        et = c.ty[1]
        r = self.fresh_seq(et, 'flt')
        rank = z3.FreshConst(z3.ArraySort(z3.IntSort(), z3.IntSort()), 'rank')
        src = z3.FreshConst(z3.ArraySort(z3.IntSort(), z3.IntSort()), 'src')
        j, k, i = z3.FreshInt('fj'), z3.FreshInt('fk'), z3.FreshInt('fi')
        n, m = S.seq_n(c), S.seq_n(r)
        kp = lambda idx: keep(S.seq_get(c, idx))
        path.assume(And(Select(rank, 0) == 0, Select(rank, n) == m))
        path.assume(ForAll([j], Implies(And(0 <= j, j < n),
                                        Select(rank, j + 1) == Select(rank, j) + If(kp(j), 1, 0)),
                           patterns=[Select(rank, j)]))
        path.assume(ForAll([i, j], Implies(And(0 <= i, i <= j, j <= n), Select(rank, i) <= Select(rank, j)),
                           patterns=[z3.MultiPattern(Select(rank, i), Select(rank, j))]))
        path.assume(ForAll([j], Implies(And(0 <= j, j < n, kp(j)),
                                        And(Select(S.seq_arr(r), Select(rank, j)) == Select(S.seq_arr(c), j),
                                            Select(src, Select(rank, j)) == j)),
                           patterns=[Select(S.seq_arr(c), j)]))
        path.assume(ForAll([k], Implies(And(0 <= k, k < m),
                                        And(0 <= Select(src, k), Select(src, k) < n, kp(Select(src, k)),
                                            Select(rank, Select(src, k)) == k,
                                            Select(S.seq_arr(r), k) == Select(S.seq_arr(c), Select(src, k)))),
                           patterns=[Select(S.seq_arr(r), k)]))
        path.assume(ForAll([i, k], Implies(And(0 <= i, i < k, k < m), Select(src, i) < Select(src, k)),
                           patterns=[z3.MultiPattern(Select(src, i), Select(src, k))]))
        return r

    def list_comp(self, ev, node, path, spec):
        if len(node.generators) != 1:
            raise Unsupported('nested list comprehension')
        g = node.generators[0]
        it = ev.ev(g.iter, path, spec) if not (isinstance(g.iter, ast.Call) and isinstance(g.iter.func, ast.Name)
                                               and g.iter.func.id in ('enumerate', 'zip', 'range')) else None
        if isinstance(it, VObj) and it.cls == 'SCFG':
            it = it.f['graph']
        ident = isinstance(node.elt, ast.Name) and isinstance(g.target, ast.Name) and node.elt.id == g.target.id
        saved = dict(path.env)
        try:
            if it is not None and it.ty[0] == 'seq' and not g.ifs:
                # map over a sequence
                q = z3.FreshInt('mq')
                path.env.update(ev.bind_target(g.target, S.seq_get(it, q)))
                path.guards.append(And(0 <= q, q < S.seq_n(it)))      # obligations of the element expression hold for positions in range
                try:
                    e = ev.ev(node.elt, path, spec)
                finally:
                    path.guards.pop()
                r = self.fresh_seq(e.ty, 'map')
                path.env.clear(); path.env.update(saved)
                path.assume(S.seq_n(r) == S.seq_n(it))
                path.assume(ForAll([q], Implies(And(0 <= q, q < S.seq_n(it)), Select(S.seq_arr(r), q) == e.t),
                                   patterns=[Select(S.seq_arr(r), q)]))
                return r
            if it is not None and it.ty[0] == 'seq' and ident:
                def keep(x):
                    path.env.update({g.target.id: x})
                    f = And(*[ev.ev_bool(c, path, spec) for c in g.ifs])
                    return f
                r = self.seq_filter(it, keep, path)
                path.env.clear(); path.env.update(saved)
                return r
            if it is not None and it.ty[0] in ('set', 'dict') and ident:
                # [x for x in S if c(x)]: a duplicate-free enumeration (arbitrary order) of the named set {x for x in S if c(x)}
                sc = ev.ev_SetComp(ast.SetComp(elt=node.elt, generators=node.generators), path, spec)
                return self.list_of_set(sc, path)
        finally:
            path.env.clear(); path.env.update(saved)
        raise Unsupported('list comprehension form: ' + ast.unparse(node))

    def dict_comp(self, ev, node, path, spec):
        if len(node.generators) != 1 or node.generators[0].ifs:
            raise Unsupported('dict comprehension form')
        g = node.generators[0]
        qt, bind, dom = ev.domain_of(g, path, spec)
        q = z3.FreshConst(S.sort_of(qt), 'dq')
        saved = dict(path.env)
        path.env.update(bind(q))
        path.guards.append(dom(q))          # obligations of the key / value expressions hold for the elements of the domain
        try:
            kv = ev.ev(node.key, path, spec)
            vv = ev.ev(node.value, path, spec)
        finally:
            path.guards.pop()
        path.env.clear(); path.env.update(saved)
        y = z3.FreshConst(S.sort_of(kv.ty), 'dy')
        val = z3.FreshConst(z3.ArraySort(S.sort_of(kv.ty), S.sort_of(vv.ty)), 'dval')
        d = S.mk_dict(kv.ty, vv.ty, z3.Lambda([y], Exists([q], And(dom(q), kv.t == y))), val)
        # requires the key expression to be injective on the domain (checked as an obligation in code mode)
        q2 = z3.FreshConst(S.sort_of(qt), 'dq2')
        inj = ForAll([q, q2], Implies(And(dom(q), dom(q2), kv.t == z3.substitute(kv.t, (q, q2))), q == q2))
        if not spec:
            self.add_obligation(path, 'subset', 'dict-comp-keys-injective:' + ast.unparse(node.key), inj)
        path.assume(ForAll([q], Implies(dom(q), Select(val, kv.t) == vv.t), patterns=[Select(val, kv.t)] if not z3.is_const(kv.t) or True else None))
        return d

    # ------------------------------------------------------------ calls
    def tuple_as_seq(self, node):
        return True

    def block_member(self, ev, base, attr, path, spec):
        """Property or bound method of a block, dispatched on the class tag."""
        return ('blockmember', base, attr)

    def isinstance_formula(self, v, clsval):
        cs = SRC.block_classes()
        if isinstance(clsval, tuple) and clsval[0] == 'pytuple':
            return Or(*[self.isinstance_formula(v, c) for c in clsval[1]])
        if isinstance(clsval, tuple) and clsval[0] == 'classref':
            raise Unsupported('isinstance against ' + clsval[2])
        if not z3.is_int_value(clsval.t):
            raise Unsupported('isinstance with symbolic class')
        cid = clsval.t.as_long()
        cname = [n for n, d in cs.items() if d['id'] == cid][0]
        tag = S.block_field(v, 'cls').t
        return Or(*[tag == cs[s]['id'] for s in sorted(SRC.subclasses(cname))])

    def call(self, ev, node, path, spec):
        f = node.func
        # --- names: builtins, spec functions, constructors, module functions
        if isinstance(f, ast.Name) and f.id not in path.env:
            r = self.call_builtin(ev, f.id, node, path, spec)
            if r is not NotImplemented:
                return r
        fv = ev.ev(f, path, spec)
        if isinstance(fv, tuple):
            tag = fv[0]
            if tag == 'valmethod':
                return self.call_value_method(ev, fv[1], fv[2], fv[3], node, path, spec)
            if tag == 'submethod':
                return self.call_sub_method(ev, fv, node, path, spec)
            if tag == 'blockmember':
                return self.call_block_method(ev, fv[1], fv[2], node, path, spec)
            if tag == 'boundmethod':
                obj, meth = fv[1], fv[2]
                qual = '%s:%s.%s' % (OBJ_MODULE[obj.cls], obj.cls, meth)
                _m, _fn, _cls = SRC.find_function(qual)
                if _fn is not None and any(isinstance(d, ast.Name) and d.id == 'staticmethod' for d in _fn.decorator_list):
                    return self.call_contract(ev, qual, node, path, spec)
                return self.call_contract(ev, qual, node, path, spec, self_val=obj, self_node=f.value)
            if tag == 'funcref':
                return self.call_contract(ev, fv[1], node, path, spec)
            if tag == 'classref':
                return self.construct_obj(ev, fv[2], node, path, spec)
            if tag == 'extref':
                return self.call_ext(ev, fv, node, path, spec)
        if isinstance(fv, V) and fv.ty == T_CLS:
            return self.construct_block(ev, fv, node, path, spec)
        raise Unsupported('call of ' + ast.unparse(f))

    def construct_block(self, ev, clsv, node, path, spec):
        kw = {}
        if node.args:
            # positional: name first (dataclass field order)
            kw['name'] = ev.ev(node.args[0], path, spec)
            if len(node.args) > 1:
                raise Unsupported('positional constructor args')
        for k in node.keywords:
            if k.arg == 'parent_region':
                # back pointer to the enclosing region block: not part of the value of a block here
                self.assumptions_used.add(BACKPTR)
                continue
            v = ev.ev(k.value, path, spec)
            ft = dict(S.BLOCK_FIELDS)[k.arg]
            if k.arg == 'subregion' and isinstance(v, VObj) and v.cls == 'SCFG':
                # a graph object passed as a region's sub-graph in value mode: an opaque identity
                v = S.fresh(S.T_SUB, 'sub_of_obj')
            if isinstance(v, tuple) and v[0] == 'emptyseq':
                v = S.seq_from_list(ft[1], [])
            if isinstance(v, V) and v.ty != ft:
                v = self.coerce(v, ft, ev)
            kw[k.arg] = v
        full = dict(block_defaults())
        full.update(kw)
        full['cls'] = clsv
        return S.mk_block(**full)

    def name_shape(self, meth, kind_t, idx_str_t):
        """the term for a generated name: the literal pieces of the current source of NameGenerator.<meth> around str(kind) and
        str(idx) (left-nested concatenation, as `+` is evaluated)"""
        from fin.name_lemmas import shape_of
        t = None
        for p_ in shape_of(meth):
            x = S.name_lit(p_[1]).t if p_[0] == 'lit' else kind_t if p_[0] == 'kind' else idx_str_t
            t = x if t is None else S.concat_f(t, x)
        return t

    def isa(self, v, c):
        """isinstance(<opaque object>, <class>): an uninterpreted relation between object identities and class names"""
        if isinstance(c, tuple) and c[0] == 'extref':
            cn = S.name_lit('.'.join(c[1:]))
        elif isinstance(c, V) and c.ty == ('pyclass',):
            cn = c
        elif isinstance(c, tuple) and c[0] == 'pytuple':
            return Or(*[self.isa(v, x) for x in c[1]])
        else:
            raise Unsupported('isinstance against %r' % (c,))
        self.assumptions_used.add('isinstance(<ast node>, <class>) is an uninterpreted relation on (object, class name): no class '
                                  'hierarchy fact is used')
        return ufun('isa!', z3.IntSort(), S.sort_of(T_NAME), z3.BoolSort())(v.t, cn.t)

    def coerce(self, v, ty, ev):
        if isinstance(v, tuple) and v[0] == 'extref' and ty == ('pyclass',):
            return V(('pyclass',), S.name_lit('.'.join(v[1:])).t)
        if v.ty == ty:
            return v
        if v.ty[0] == 'pair' and ty[0] == 'seq':
            return ev.pair_to_seq(v, ty[1])
        if v.ty == T_NONE and ty == T_NAME:
            return S.name_lit('<None>')
        if ty[0] == 'opt' and v.ty == ty[1]:
            return S.opt_some(v)
        if ty[0] == 'opt' and v.ty == T_NONE:
            return S.opt_none(ty[1])
        raise Unsupported('coerce %r to %r' % (v.ty, ty))

    def allocate_sub(self, ev, node, path, spec):
        """`SCFG(<dict>, name_gen=<ng>)` in heap mode: a new sub-graph identity whose block dictionary is the argument.
        Assumed (allocation): the identity is not referenced by any stored block or block value in scope.  The
        dataclass __post_init__ takes a region name of kind "meta" from the (shared) generator: its trusted contract."""
        if spec or len(node.args) != 1 or [k.arg for k in node.keywords] != ['name_gen']:
            raise Unsupported('SCFG(...) allocation shape')
        d = ev.ev(node.args[0], path, spec)
        if not (isinstance(d, V) and d.ty == ('dict', T_NAME, T_BLOCK)):
            raise Unsupported('SCFG(...) of %r' % (d,))
        heap = path.env['$heap']
        s = S.fresh(S.T_SUB, 'newsub')
        sq, kq = z3.FreshInt('as'), z3.FreshConst(S.sort_of(T_NAME), 'ak')
        g = V(('dict', T_NAME, T_BLOCK), Select(heap.t, sq))
        path.assume(S.forall_p([sq, kq], Implies(S.dict_has(g, kq), S.block_field(S.dict_get(g, kq), 'subregion').t != s.t),
                               [Select(S.dict_val(g), kq)]))

        def walk(v):
            if isinstance(v, VObj):
                for x in v.f.values():
                    walk(x)
            elif isinstance(v, V) and v.ty == ('dict', T_NAME, T_BLOCK):
                k2 = z3.FreshConst(S.sort_of(T_NAME), 'ak')
                path.assume(S.forall_p([k2], Implies(S.dict_has(v, k2), S.block_field(S.dict_get(v, k2), 'subregion').t != s.t),
                                       [Select(S.dict_val(v), k2)]))
            elif isinstance(v, V) and v.ty == T_BLOCK:
                path.assume(S.block_field(v, 'subregion').t != s.t)
            elif isinstance(v, V) and v.ty == S.T_SUB:
                path.assume(v.t != s.t)
        for k_, v_ in path.env.items():
            if not k_.startswith('$') and not isinstance(v_, Namespace):
                walk(v_)
        # ... it was not a sub-graph before (identities that are not in use have empty dictionaries in the total heap of the
        # model) and it is nested in nothing: its own root, the root of nothing else, depth 0
        h0 = self.pre_env['$heap']
        for hp in {heap.t.get_id(): heap, h0.t.get_id(): h0}.values():
            ke = z3.FreshConst(S.sort_of(T_NAME), 'ak')
            ge = V(('dict', T_NAME, T_BLOCK), Select(hp.t, s.t))
            path.assume(S.forall_p([ke], Not(S.dict_has(ge, ke)), [S.dict_has(ge, ke)]))
        root = ufun('chain_root', z3.IntSort(), z3.IntSort())
        dep = ufun('sub_depth', z3.IntSort(), z3.IntSort())
        so = z3.FreshInt('as')
        path.assume(root(s.t) == s.t)
        path.assume(dep(s.t) == 0)
        path.assume(S.forall_p([so], Implies(so != s.t, root(so) != s.t), [root(so)]))
        self.assumptions_used.add('allocation: the identity of a new SCFG object is not referenced by any stored block, nor by a value in '
                                  'scope; it names no sub-graph before (empty dictionary) and is nested in nothing (its own chain_root)')
        self.canary_points.append(('allocation ' + ast.unparse(node)[:40], list(path.hyps)))
        path.env['$heap'] = V(S.T_HEAP, Store(heap.t, s.t, d.t))
        # __post_init__: one region name of kind "meta" is taken from the generator passed in
        ngn = node.keywords[0].value
        ng = ev.ev(ngn, path, spec)
        if not (isinstance(ng, VObj) and ng.cls == 'NameGenerator'):
            raise Unsupported('SCFG(...) name_gen')
        kinds = ng.f['kinds']
        meta = S.name_lit('meta')
        cur = If(S.dict_has(kinds, meta.t), S.dict_get(kinds, meta.t).t, IntVal(0))
        newk = self.dict_store(kinds, meta.t, cur + 1, path)
        self.assign_to(ev, ast.Attribute(value=ngn, attr='kinds', ctx=ast.Store()), newk, path)
        self.assumptions_used.add('SCFG(...) of a sub-graph applies the proved contract of SCFG.__post_init__ (one "meta" name is taken from '
                                  'the shared generator); the region record of a sub-graph is not modelled')
        return s

    def construct_obj(self, ev, clsname, node, path, spec):
        if clsname == 'SCFG' and node.args and path.env.get('$heap') is not None:
            return self.allocate_sub(ev, node, path, spec)
        if clsname not in OBJ_CLASSES or node.args:
            raise Unsupported('constructor ' + clsname)
        fields = {}
        given = {k.arg: ev.ev(k.value, path, spec) for k in node.keywords}
        for fn_, ft in OBJ_CLASSES[clsname].items():
            if fn_ in given:
                fields[fn_] = given[fn_]
            else:
                fields[fn_] = self.default_obj_field(ft)
        obj = VObj(clsname, fields)
        pq = '%s:%s.__post_init__' % (OBJ_MODULE.get(clsname, ''), clsname)
        pc = REGISTRY.get(pq)
        if pc is not None:
            # dataclass __post_init__: applied through its (assumed) contract
            env = {'self': obj.copy(), 'old': Namespace({'self': obj})}
            if pc.trusted:
                self.assumptions_used.add('trusted contract: ' + pq)
            for cn, text in pc.ensures.items():
                nd = ast.parse(text, mode='eval').body
                lhs = ast.unparse(nd.left)
                val = Evaluator(self, pq.split(':')[0]).ev(nd.comparators[0], Path(env, path.hyps), True)
                self.set_loc(env, lhs, val)
            obj = env['self']
        return obj

    def default_obj_field(self, ft):
        t = S.parse_type(ft)
        if t[0] == 'obj':
            return VObj(t[1], {k: self.default_obj_field(v) for k, v in OBJ_CLASSES[t[1]].items()})
        if t[0] == 'set':
            return S.set_empty(t[1])
        if t[0] == 'dict':
            return S.dict_empty(t[1], t[2])
        if t[0] == 'seq':
            return S.seq_from_list(t[1], [])
        if t == T_INT:
            return S.vint(0)
        return S.fresh(t, 'dflt')

    def call_builtin(self, ev, name, node, path, spec):
        a = node.args
        E = lambda i: ev.ev(a[i], path, spec)
        if name == 'len':
            v = E(0)
            if isinstance(v, VObj) and v.cls == 'SCFG':
                v = v.f['graph']
            if v.ty[0] == 'seq':
                return S.vint(S.seq_n(v))
            if v.ty[0] == 'set':
                return S.vint(S.set_card(v))
            if v.ty[0] == 'dict':
                return S.vint(S.set_card(S.dict_keys(v)))
            raise Unsupported('len')
        if name in ('list', 'tuple'):
            if not a:
                return NotImplemented if False else ('emptyseq',)
            if isinstance(a[0], ast.GeneratorExp):
                lc = ast.ListComp(elt=a[0].elt, generators=a[0].generators)
                return self.list_comp(ev, lc, path, spec)
            v = E(0)
            if isinstance(v, V) and v.ty[0] == 'seq':
                return v
            if isinstance(v, V) and v.ty[0] == 'pair':
                return ev.pair_to_seq(v, v.ty[1])
            return self.list_of_set(v, path)
        if name == 'set':
            if not a:
                return ('emptyset',)
            if isinstance(a[0], ast.GeneratorExp):
                sc = ast.SetComp(elt=a[0].elt, generators=a[0].generators)
                return ev.ev(sc, path, spec)
            v = E(0)
            if isinstance(v, VObj) and v.cls == 'SCFG':
                v = v.f['graph']
            if isinstance(v, V) and v.ty[0] == 'seq' and not self.in_axiom and ev.is_closed(v.t):
                return ev.named_set_of_seq(v, path)
            return self.to_set(v)
        if name == 'dict' and not a:
            return ('emptydict',)
        if name == 'sorted':
            return self.sorted_of(E(0))
        if name == 'iter':
            return ('iter', E(0))
        if name == 'next':
            it = E(0)
            if not (isinstance(it, tuple) and it[0] == 'iter'):
                raise Unsupported('next() of non-iter')
            c = it[1]
            site = ast.unparse(node)
            if c.ty[0] == 'seq':
                if not spec:
                    self.add_obligation(path, 'noraise', site, S.seq_n(c) > 0, 'StopIteration')
                return S.seq_get(c, IntVal(0))
            s = self.to_set(c)
            x = z3.FreshConst(S.sort_of(s.ty[1]), 'nx')
            if not spec:
                self.add_obligation(path, 'noraise', site, Exists([x], Select(s.t, x)), 'StopIteration')
            r = S.fresh(s.ty[1], 'next')
            path.assume(Select(s.t, r.t))
            return r
        if name == 'isinstance':
            v = E(0)
            c = E(1)
            if isinstance(v, V) and v.ty == T_BLOCK:
                return S.vbool(self.isinstance_formula(v, c))
            if isinstance(v, V) and v.ty == T_INT and isinstance(c, tuple) and c[0] == 'extref':
                return S.vbool(True)
            if isinstance(v, V) and v.ty == ('node',):
                return S.vbool(self.isa(v, c))
            raise Unsupported('isinstance on %r' % (v,))
        if name == 'isa':
            # spec: isinstance of an opaque object against a Python class (an uninterpreted relation)
            return S.vbool(self.isa(E(0), E(1)))
        if name == 'type':
            v = E(0)
            if isinstance(v, V) and v.ty == T_BLOCK:
                return S.block_field(v, 'cls')
            raise Unsupported('type()')
        if name == 'str':
            v = E(0)
            if v.ty == T_NAME:
                return v
            if v.ty == T_INT:
                return V(T_NAME, S.str_of_int(v.t))
            raise Unsupported('str()')
        if name in ('all', 'any'):
            if isinstance(a[0], ast.GeneratorExp):
                g = a[0]
                return S.vbool(ev.quantify(g.generators, lambda: ev.ev_bool(g.elt, path, spec), path, spec, name == 'all'))
            if isinstance(a[0], ast.ListComp):
                g = a[0]
                return S.vbool(ev.quantify(g.generators, lambda: ev.ev_bool(g.elt, path, spec), path, spec, name == 'all'))
            raise Unsupported(name)
        if name == 'replace':
            b = E(0)
            kw = {k.arg: self.coerce(ev.ev(k.value, path, spec), dict(S.BLOCK_FIELDS)[k.arg], ev) for k in node.keywords}
            return S.block_replace(b, **kw)
        if name == 'cast':
            return E(1)
        # ---- spec-only functions
        if name == 'implies':
            return S.vbool(Implies(ev.ev_bool(a[0], path, spec), ev.ev_bool(a[1], path, spec)))
        if name == 'distinct':
            return S.vbool(S.seq_distinct(E(0)))
        if name == 'is_sorted':
            return S.vbool(S.seq_sorted_strict(E(0)))
        if name == 'updated':
            d, k, v = E(0), E(1), E(2)
            if ev.qdepth > 0 or self.in_axiom:
                return S.dict_set(d, k.t, v.t)
            return self.dict_store(d, k.t, v.t, path)
        if name == 'removed':
            d, k = E(0), E(1)
            if ev.qdepth > 0 or self.in_axiom:
                return S.dict_del(d, k.t)
            return self.dict_remove(d, k.t, path)
        if name == 'card':
            return S.vint(S.set_card(self.to_set(E(0))))
        if name == 'get':
            d, k, dflt = E(0), E(1), E(2)
            return V(d.ty[2], If(S.dict_has(d, k.t), S.dict_get(d, k.t).t, dflt.t))
        if name == 'same_elements':
            return S.vbool(S.set_eq(self.to_set(E(0)), self.to_set(E(1))))
        if name == 'reach1':
            return self.reach1(ev, node, path, spec)
        if name in ('is_generated', 'gen_index'):
            # is_generated(n, kind): n is a block name the generator can hand out for `kind`; gen_index(n): its index
            nm = E(0)
            idx_of = ufun('idx_of!block_name', S.sort_of(T_NAME), z3.IntSort())
            if name == 'gen_index':
                return S.vint(idx_of(nm.t))
            kind = E(1)
            t = self.name_shape('new_block_name', kind.t, S.str_of_int(idx_of(nm.t)))
            return S.vbool(And(nm.t == t, idx_of(nm.t) >= 0))
        if name == 'gen_region_name':          # alias for functions that have a local called region_name
            name = 'region_name'
        if name in ('block_name', 'region_name', 'var_name'):
            kind, idx = E(0), E(1)
            cat = lambda a, b: S.concat_f(a, b)
            t = self.name_shape('new_' + name, kind.t, S.str_of_int(idx.t))
            # injectivity in (kind, index) for index >= 0: lemma L-inj, discharged by cvc5 on the real string theory
            # (fin/name_lemmas.py) for the shapes read from the source, under A-str
            kq = z3.Const('bn!k', S.sort_of(T_NAME))
            iq = z3.Int('bn!i')
            pt = self.name_shape('new_' + name, kq, S.str_of_int(iq))
            kind_of = ufun('kind_of!' + name, S.sort_of(T_NAME), S.sort_of(T_NAME))
            idx_of = ufun('idx_of!' + name, S.sort_of(T_NAME), z3.IntSort())
            self.add_axiom(('name-inj', name), ForAll([kq, iq], Implies(iq >= 0, And(kind_of(pt) == kq, idx_of(pt) == iq)), patterns=[pt]))
            self.assumptions_used.add('lemma L-inj (%s is injective in (kind, index)): proved by cvc5 in fin/name_lemmas.py under A-str' % name)
            return V(T_NAME, t)
        if name == 'rind':
            return self.rind(ev, node, path, spec)
        if name == 'fact':
            # fact('Class.func', 'clause', arg): the instance at `arg` of an ensures clause of a pure contracted function
            # with no precondition (the clause is discharged for all inputs among that function's own obligations; used for
            # clauses that are not offered as quantified axioms because they form matching loops)
            qs, cl = a[0].value, a[1].value
            cands = [q for q in REGISTRY if q.endswith(':' + qs) or q.endswith('.' + qs)]
            if len(cands) != 1:
                raise Unsupported('fact(): no unique contract for ' + qs)
            c2 = REGISTRY[cands[0]]
            if not c2.pure or c2.requires or cl not in c2.ensures or len(c2.params) != 1 or c2.trusted:
                raise Unsupported('fact(): %s.%s is not an unconditional clause of a pure unary function' % (qs, cl))
            v0 = E(2)
            pn = list(c2.params)[0]
            flat = []
            self.flatten(v0, pn, flat)
            rty2 = S.parse_type(c2.returns)
            fsym = ufun('F!' + cands[0], *([S.sort_of(v.ty) for _, v in flat] + [S.sort_of(rty2)]))
            env2 = {pn: v0, 'result': V(rty2, fsym(*[v.t for _, v in flat]))}
            env2['old'] = Namespace({pn: v0})
            self.assumptions_used.add('instance of the proved clause %s of %s' % (cl, cands[0].split(':')[1]))
            return S.vbool(self.spec_formula(ast.parse(c2.ensures[cl], mode='eval').body, env2, path, cands[0].split(':')[0]))
        if name == 'region_names':
            # the names of the region blocks in the hierarchy of a sub-graph (what iter_subregions yields on it)
            return V(('set', T_NAME), ufun('region_names', z3.IntSort(), S.sort_of(('set', T_NAME)))(E(0).t))
        if name == 'hier_names':
            # the names a nested iteration of the sub-graph yields (all blocks and regions inside it, at every depth)
            return V(('set', T_NAME), ufun('hier_names', z3.IntSort(), S.sort_of(('set', T_NAME)))(E(0).t))
        if name == 'sub_depth':
            return S.vint(ufun('sub_depth', z3.IntSort(), z3.IntSort())(E(0).t))
        if name == 'chain_root':
            # the outermost sub-graph a sub-graph is nested in (sub-graphs of different top-level regions are different trees)
            return S.vint(ufun('chain_root', z3.IntSort(), z3.IntSort())(E(0).t))
        if name == 'graph_at_entry':
            if self.pre_env is None or self.pre_env.get('$heap') is None:
                raise Unsupported('graph_at_entry outside heap mode')
            h0 = path.env.get('$heap0') or self.pre_env['$heap']       # inside a callee's contract: the heap at the call
            return V(('dict', T_NAME, T_BLOCK), Select(h0.t, E(0).t))
        if name == 'same_value':
            # equality of two values as SMT terms (implies ==; lets congruence identify function applications over them)
            return S.vbool(E(0).t == E(1).t)
        if name == 'graph_before':
            # the sub-graph's block dictionary at the start of the current while iteration
            ns_ = path.env.get('it0')
            if not isinstance(ns_, Namespace) or ns_.env.get('$heap') is None:
                raise Unsupported('graph_before outside a loop in heap mode')
            return V(('dict', T_NAME, T_BLOCK), Select(ns_.env['$heap'].t, E(0).t))
        if name == 'same_graph':
            # the sub-graph's block dictionary is the one of the entry heap, as an SMT term (what a heap write leaves alone
            # is term-equal, so everything computed from it is congruent)
            h0 = path.env.get('$heap0') or self.pre_env['$heap']
            return S.vbool(Select(path.env['$heap'].t, E(0).t) == Select(h0.t, E(0).t))
        if name == 'graph_now':
            return V(('dict', T_NAME, T_BLOCK), Select(path.env['$heap'].t, E(0).t))
        if name == 'heap_unchanged':
            return S.vbool(path.env['$heap'].t == (path.env.get('$heap0') or self.pre_env['$heap']).t)
        if name == 'nesting_wf':
            # the nesting of sub-graphs is well founded: a region block stored in sub-graph s has a sub-graph of greater depth
            h = path.env['$heap']
            sq, kq = z3.FreshInt('ws'), z3.FreshConst(S.sort_of(T_NAME), 'wk')
            g = V(('dict', T_NAME, T_BLOCK), Select(h.t, sq))
            b = S.dict_get(g, kq)
            dep = ufun('sub_depth', z3.IntSort(), z3.IntSort())
            root = ufun('chain_root', z3.IntSort(), z3.IntSort())
            cs = SRC.block_classes()
            isreg = S.block_field(b, 'cls').t == cs['RegionBlock']['id']
            bs = S.block_field(b, 'subregion').t
            # nesting_wf(x): only the sub-graphs of the tree x belongs to
            intree = BoolVal(True) if not node.args else root(sq) == root(E(0).t)
            return S.vbool(S.forall_p([sq, kq], Implies(And(S.dict_has(g, kq), isreg, intree), And(dep(bs) > dep(sq), root(bs) == root(sq))),
                                      [Select(S.dict_val(g), kq)]))
        if name == 'fwd_rank':
            # fwd_rank(seq, be, p): number of entries of seq[:p] that are not in be (uninterpreted, with its recurrence)
            sq_, be_, p_ = E(0), E(1), E(2)
            if isinstance(be_, V) and be_.ty[0] == 'seq' and ev.is_closed(be_.t) and not self.in_axiom:
                be_ = ev.named_set_of_seq(be_, path)        # set(seq) as the function application setof(seq), with its definition
            elif isinstance(be_, V) and be_.ty[0] == 'seq':
                # under a quantifier: the same function application (its definition is supplied where a closed instance occurs)
                be_ = V(('set', be_.ty[1]), ufun('setof!' + S.mangle(be_.ty[1]), S.sort_of(be_.ty), S.sort_of(('set', be_.ty[1])))(be_.t))
            else:
                be_ = self.to_set(be_)
            arr, n = S.seq_arr(sq_), S.seq_n(sq_)
            n_before = len(path.hyps)
            R = ufun('fwd_rank', arr.sort(), be_.t.sort(), z3.IntSort(), z3.IntSort())
            if ('fwd_rank-prefix', str(arr.sort())) not in self._axiom_keys and not self.in_axiom:
                # prefix lemma, general form: two sequences that agree below p have the same count below p
                self._axiom_keys.add(('fwd_rank-prefix', str(arr.sort())))
                A1, A2 = z3.Const('pl!A1', arr.sort()), z3.Const('pl!A2', arr.sort())
                Bq = z3.Const('pl!B', be_.t.sort())
                pq, qq = z3.Int('pl!p'), z3.Int('pl!q')
                agree = ForAll([qq], Implies(And(0 <= qq, qq < pq), Select(A1, qq) == Select(A2, qq)))
                self.rank_prefix_axiom = (ForAll([A1, A2, Bq, pq], Implies(And(pq >= 0, agree), R(A1, Bq, pq) == R(A2, Bq, pq)),
                                          patterns=[z3.MultiPattern(R(A1, Bq, pq), R(A2, Bq, pq))]))
                self.labels[self.rank_prefix_axiom.get_id()] = 'fact:rank-prefix'
                self.assumptions_used.add('fwd_rank prefix lemma: the number of non-back-edge entries below p only depends on the entries below p')
            key = ('fwd_rank', arr.get_id(), be_.t.get_id())
            if key not in self._axiom_keys and ev.is_closed(arr) and ev.is_closed(be_.t) and not self.in_axiom:
                self._axiom_keys.add(key)
                self.keepalive.extend([arr, be_.t])
                j = z3.FreshInt('rj')
                path.hyps.append(R(arr, be_.t, 0) == 0)
                step = R(arr, be_.t, j + 1) == R(arr, be_.t, j) + If(Select(be_.t, Select(arr, j)), 0, 1)
                path.hyps.append(S.forall_p([j], Implies(j >= 0, step), [R(arr, be_.t, j)]))
                path.hyps.append(S.forall_p([j], Implies(j >= 0, And(R(arr, be_.t, j) >= 0, R(arr, be_.t, j) <= j)), [R(arr, be_.t, j)]))
                # prefix lemma (the count only depends on the entries below p; induction on p): instances for the
                # sequences this one was built from by an update / append / concatenation
                cur, seen_ = arr, 0
                while cur.get_id() in getattr(self, 'prefix_of', {}) and seen_ < 6:
                    base_arr, upto = self.prefix_of[cur.get_id()]
                    body_ = Implies(And(j >= 0, j <= upto), R(arr, be_.t, j) == R(base_arr, be_.t, j))
                    path.hyps.append(S.forall_p([j], body_, [R(arr, be_.t, j)]))
                    path.hyps.append(S.forall_p([j], body_, [R(base_arr, be_.t, j)]))
                    self.assumptions_used.add('fwd_rank prefix lemma: the number of non-back-edge entries below p only depends on the entries below p')
                    # the base sequence needs its own recurrence
                    bkey = ('fwd_rank', base_arr.get_id(), be_.t.get_id())
                    if bkey not in self._axiom_keys:
                        self._axiom_keys.add(bkey)
                        path.hyps.append(R(base_arr, be_.t, 0) == 0)
                        stepb = R(base_arr, be_.t, j + 1) == R(base_arr, be_.t, j) + If(Select(be_.t, Select(base_arr, j)), 0, 1)
                        path.hyps.append(S.forall_p([j], Implies(j >= 0, stepb), [R(base_arr, be_.t, j)]))
                    upto_prev = upto
                    cur = base_arr
                    seen_ += 1
            for h_ in path.hyps[n_before:]:
                self.labels.setdefault(h_.get_id(), 'fact:rank')
            if getattr(self, 'rank_prefix_axiom', None) is not None and not any(self.rank_prefix_axiom.eq(h_) for h_ in path.hyps):
                path.hyps.append(self.rank_prefix_axiom)
            return S.vint(R(arr, be_.t, p_.t))
        if name == 'identical':
            # equality of two sets / maps as SMT array terms (extensional in the array theory, hence the same as ==);
            # assumed, it lets congruence identify uninterpreted predicates over the two terms
            a_, b_ = self.to_set(E(0)) if not (isinstance(E(0), V) and E(0).ty[0] == 'tmap') else E(0), None
            b_ = self.to_set(E(1)) if not (isinstance(E(1), V) and E(1).ty[0] == 'tmap') else E(1)
            return S.vbool(a_.t == b_.t)
        if name == 'tmap':
            # tmap(lambda d: <set expression>): the total map d -> set, as a named constant with its pointwise definition
            lam = node.args[0]
            if not isinstance(lam, ast.Lambda) or len(lam.args.args) != 1:
                raise Unsupported('tmap needs a one-argument lambda')
            kt = T_NAME
            tk = None
            if not self.in_axiom:
                tk = ev.text_key(lam, path)
                hit = self.set_cache.get(tk)
                if hit is not None:
                    if not any(hit[1].eq(h) for h in path.hyps):
                        path.hyps.append(hit[1])
                    return V(hit[2], hit[0])
            d = z3.FreshConst(S.sort_of(kt), 'td')
            saved = dict(path.env)
            path.env[lam.args.args[0].arg] = V(kt, d)
            ev.qdepth += 1
            ev.bound.append(d)
            try:
                body = ev.ev(lam.body, path, True)
            finally:
                ev.qdepth -= 1
                ev.bound.pop()
                path.env.clear()
                path.env.update(saved)
            body = self.to_set(body)
            ty = ('tmap', kt, body.ty)
            x = z3.FreshConst(S.sort_of(body.ty[1]), 'tx')
            if self.in_axiom or not ev.is_closed(body.t):
                return V(ty, z3.Lambda([d], body.t))
            # closed: a named constant with its pointwise definition; the same body over the same state is the same constant
            canon = z3.Const('canon!td', S.sort_of(kt))
            fc = z3.substitute(body.t, (d, canon))
            key = ('tmapbody', fc.get_id())
            self.keepalive.append(fc)
            hit = self.set_cache.get(key)
            if hit is None:
                rc = z3.FreshConst(S.sort_of(ty), 'tmap')
                bt = body.t
                member = z3.substitute_vars(bt.body(), x) if (z3.is_quantifier(bt) and bt.is_lambda() and bt.num_vars() == 1) else Select(bt, x)
                ax = S.forall_p([d, x], Select(Select(rc, d), x) == member, [Select(Select(rc, d), x)])
                hit = (rc, ax)
                self.set_cache[key] = hit
            rc, ax = hit[0], hit[1]
            if not any(ax.eq(h) for h in path.hyps):
                path.hyps.append(ax)
            if tk is not None:
                self.set_cache[tk] = (rc, ax, ty)
            return V(ty, rc)
        if name == 'dominates':
            return self.dominates(ev, node, path, spec)
        if name == 'dgfp':
            return self.dgfp(ev, node, path, spec)
        if name == 'without':
            d, ns_ = E(0), self.to_set(E(1))
            x = z3.FreshConst(S.sort_of(d.ty[1]), 'wx')
            return S.mk_dict(d.ty[1], d.ty[2], z3.Lambda([x], And(S.dict_has(d, x), Not(Select(ns_.t, x)))), S.dict_val(d))
        if name == 'issubclass_synthetic':
            c = E(0)
            cs = SRC.block_classes()
            return S.vbool(Or(*[c.t == cs[n]['id'] for n in sorted(SRC.subclasses('SyntheticBlock'))]))
        from contracts.macros import MACROS
        if name in MACROS:
            params, body = MACROS[name]
            sub_env = {pn: E(i) for i, pn in enumerate(params)}
            p2 = Path(sub_env, path.hyps)
            p2.guards = path.guards
            sub = Evaluator(self, ev.modname)
            sub.qdepth = ev.qdepth
            return S.vbool(self._formula(sub, ast.parse(body, mode='eval').body, p2))
        return NotImplemented

    def call_ext(self, ev, fv, node, path, spec):
        what = tuple(fv[1:])
        if what == ('collections', 'defaultdict') and len(node.args) == 1 and isinstance(node.args[0], ast.Name) \
                and node.args[0].id in ('set', 'list', 'dict', 'int'):
            return ('emptytmap', node.args[0].id)
        if what == ('collections', 'deque') and len(node.args) <= 1 and not node.keywords:
            # a deque used as a FIFO is modelled as a list (append/extend at the right, popleft() = pop(0))
            if not node.args:
                return ('emptyseq',)
            v = ev.ev(node.args[0], path, spec)
            if isinstance(v, V) and v.ty[0] == 'seq':
                return v
            if isinstance(v, tuple) and v[0] == 'emptyseq':
                return v
            return self.list_of_set(v, path)
        if what == ('functools', 'reduce') and len(node.args) == 2 and ast.unparse(node.args[0]) == 'set.intersection' \
                and isinstance(node.args[1], ast.ListComp) and len(node.args[1].generators) == 1 and not node.args[1].generators[0].ifs \
                and isinstance(node.args[1].generators[0].target, ast.Name):
            # functools.reduce(set.intersection, [E(p) for p in C]): the intersection of the family (the fold order
            # is irrelevant: intersection is associative and commutative); TypeError on an empty list
            g = node.args[1].generators[0]
            coll = ev.ev(g.iter, path, spec)
            cs_ = self.to_set(coll)
            pv = S.fresh(cs_.ty[1], 'rp')
            if not spec:
                self.add_obligation(path, 'noraise', ast.unparse(node), as_bool(cs_), 'TypeError')
            # E(p) is evaluated for every p of the collection: its own obligations (KeyError ...) under p in C
            p2 = path.copy()
            p2.env = dict(path.env)
            p2.env[g.target.id] = pv
            p2.assume(Select(cs_.t, pv.t))
            fam = ev.ev(node.args[1].elt, p2, spec)
            if fam.ty[0] != 'set':
                raise Unsupported('reduce(set.intersection) over non-sets')
            x = z3.FreshConst(S.sort_of(fam.ty[1]), 'ix')
            r = S.fresh(fam.ty, 'inter')
            body = ForAll([pv.t], Implies(Select(cs_.t, pv.t), Select(fam.t, x)))
            path.hyps.append(S.forall_p([x], Select(r.t, x) == body, [Select(r.t, x)]))
            return r
        raise Unsupported('external call ' + '.'.join(str(x) for x in fv[1:]))

    # ---- methods on symbolic built-in values ---------------------------------
    def call_value_method(self, ev, base, meth, basenode, node, path, spec):
        a = node.args
        E = lambda i: ev.ev(a[i], path, spec)
        k = base.ty[0]
        site = ast.unparse(node)
        if k == 'seq':
            arr, n = S.seq_arr(base), S.seq_n(base)
            et = base.ty[1]
            if meth == 'index':
                x = E(0)
                if not spec:
                    self.add_obligation(path, 'noraise', site, S.seq_mem(base, x.t), 'ValueError')
                i = z3.FreshInt('idx')
                j = z3.FreshInt('ij')
                path.assume(And(0 <= i, i < n, Select(arr, i) == x.t))
                path.assume(ForAll([j], Implies(And(0 <= j, j < i), Select(arr, j) != x.t), patterns=[Select(arr, j)]))
                return S.vint(i)
            if meth == 'append':
                x = self.coerce(E(0), et, ev)
                r = self.seq_store(base, n, x.t, n + 1, path)
                self.assign_to(ev, basenode, r, path)
                if not spec and isinstance(a[0], ast.Tuple):
                    for fi, e_ in enumerate(a[0].elts):
                        ev_ = path.env.get(e_.id) if isinstance(e_, ast.Name) else None
                        if isinstance(ev_, V) and ev_.ty[0] in ('set', 'seq', 'dict', 'tmap'):
                            if not isinstance(basenode, ast.Name):
                                raise Unsupported('a mutable local escapes into a container that is not a local list')
                            self.record_alias(path, e_.id, basenode.id, n, fi)
                elif not spec and isinstance(a[0], ast.Name) and isinstance(path.env.get(a[0].id), V) \
                        and path.env[a[0].id].ty[0] in ('set', 'seq', 'dict', 'tmap') and a[0].id in self.mutated_locals:
                    raise Unsupported('a mutable local that is modified later is appended to a list (aliasing outside the model)')
                return NONE
            if meth == 'copy':
                return base
            if meth == 'popleft' and not a:
                self.add_obligation(path, 'noraise', site, n > 0, 'IndexError')
                r = self.seq_remove_at(base, IntVal(0), path)
                self.assign_to(ev, basenode, r, path)
                return S.seq_get(base, IntVal(0))
            if meth == 'pop':
                if not a:
                    self.add_obligation(path, 'noraise', site, n > 0, 'IndexError')
                    self.assign_to(ev, basenode, S.mk_seq(et, arr, n - 1), path)
                    return S.seq_get(base, n - 1)
                i = E(0).t
                self.add_obligation(path, 'noraise', site, And(0 <= i, i < n), 'IndexError')
                r = self.seq_remove_at(base, i, path)
                self.assign_to(ev, basenode, r, path)
                return S.seq_get(base, i)
            if meth == 'remove':
                x = E(0)
                self.add_obligation(path, 'noraise', site, S.seq_mem(base, x.t), 'ValueError')
                i = z3.FreshInt('ridx')
                j = z3.FreshInt('rj')
                path.assume(And(0 <= i, i < n, Select(arr, i) == x.t))
                path.assume(ForAll([j], Implies(And(0 <= j, j < i), Select(arr, j) != x.t), patterns=[Select(arr, j)]))
                self.assign_to(ev, basenode, self.seq_remove_at(base, i, path), path)
                return NONE
            if meth == 'extend':
                o = E(0)
                if o.ty[0] != 'seq':
                    o = self.list_of_set(o, path)
                self.assign_to(ev, basenode, self.seq_concat(base, o, path), path)
                return NONE
        if k == 'set':
            et = base.ty[1]
            x = z3.FreshConst(S.sort_of(et), 'sx')
            if meth == 'add':
                self.assign_to(ev, basenode, V(base.ty, Store(base.t, E(0).t, True)), path)
                return NONE
            if meth == 'discard':
                self.assign_to(ev, basenode, V(base.ty, Store(base.t, E(0).t, False)), path)
                return NONE
            if meth in ('update', 'union', 'intersection', 'difference', 'difference_update'):
                o = E(0)
                if isinstance(o, V) and o.ty[0] == 'seq' and not spec and ev.is_closed(o.t):
                    o = ev.named_set_of_seq(o, path)
                o = self.to_set(o)
                if meth in ('update', 'union'):
                    r = V(base.ty, z3.Lambda([x], Or(Select(base.t, x), Select(o.t, x))))
                elif meth == 'intersection':
                    r = V(base.ty, z3.Lambda([x], And(Select(base.t, x), Select(o.t, x))))
                else:
                    r = V(base.ty, z3.Lambda([x], And(Select(base.t, x), Not(Select(o.t, x)))))
                if not spec and ev.qdepth == 0:
                    # name the result (keeps later terms small and gives e-matching a constant to work with)
                    sc = z3.FreshConst(S.sort_of(base.ty), 'setop')
                    body_ = Select(sc, x) == (Or(Select(base.t, x), Select(o.t, x)) if meth in ('update', 'union') else
                                              And(Select(base.t, x), Select(o.t, x)) if meth == 'intersection' else
                                              And(Select(base.t, x), Not(Select(o.t, x))))
                    # triggers in every direction: the named result and both operands
                    for pat in (Select(sc, x), Select(base.t, x), Select(o.t, x)):
                        path.hyps.append(S.forall_p([x], body_, [pat]))
                    r = V(base.ty, sc)
                if meth in ('update', 'difference_update'):
                    self.assign_to(ev, basenode, r, path)
                    return NONE
                return r
            if meth == 'copy':
                return base
        if k == 'dict':
            if meth == 'keys':
                return S.dict_keys(base)
            if meth == 'get':
                kk = E(0)
                dflt = E(1) if len(a) > 1 else NONE
                if dflt.ty == T_NONE:
                    raise Unsupported('dict.get with None default')
                return V(base.ty[2], If(S.dict_has(base, kk.t), S.dict_get(base, kk.t).t, dflt.t))
            if meth == 'pop':
                kk = E(0)
                self.add_obligation(path, 'noraise', site, S.dict_has(base, kk.t), 'KeyError')
                self.assign_to(ev, basenode, self.dict_remove(base, kk.t, path), path)
                return S.dict_get(base, kk.t)
            if meth == 'copy':
                return base
        raise Unsupported('method %s on %r' % (meth, base.ty))

    # ---- reachability (uninterpreted Reach1 with base/step axioms; closure principle by instance)
    def _jt_of(self, ev, g, x, path):
        return self.dispatch_block(ev, S.dict_get(g, x), 'jump_targets', None, path, True)

    def reach_pred(self, g):
        return ufun('Reach1', S.sort_of(g.ty), S.sort_of(T_NAME), S.sort_of(T_NAME), z3.BoolSort())

    def named(self, ev, v, path, hint='nm'):
        """a closed compound term (an if-expression ...) replaced by a constant equal to it, so that it can occur in patterns"""
        t = v.t
        if z3.is_const(t) or not ev.is_closed(t) or self.in_axiom:
            return v
        hit = self.set_cache.get(('named', t.get_id()))
        if hit is None:
            c = z3.FreshConst(t.sort(), hint)
            hit = (c, c == t)
            self.set_cache[('named', t.get_id())] = hit
            self.keepalive.append(t)
        if not any(hit[1].eq(h) for h in path.hyps):
            path.hyps.append(hit[1])
        return V(v.ty, hit[0])

    def reach1(self, ev, node, path, spec):
        g, a, b = (ev.ev(x, path, spec) for x in node.args)
        a = self.named(ev, a, path, 'start')
        R = self.reach_pred(g)
        key = ('reach', g.t.get_id())
        if key not in self._axiom_keys and ev.is_closed(g.t) and not self.in_axiom:
            self._axiom_keys.add(key)
            x, y = z3.Const('rx', S.sort_of(T_NAME)), z3.Const('ry', S.sort_of(T_NAME))
            k = z3.Int('rk')
            scratch = Path({}, [])
            prev, self.in_axiom = self.in_axiom, True
            try:
                jx = self._jt_of(ev, g, x, scratch)
                jy = self._jt_of(ev, g, y, scratch)
            finally:
                self.in_axiom = prev
            base = ForAll([x, k], Implies(And(S.dict_has(g, x), 0 <= k, k < S.seq_n(jx)), R(g.t, x, Select(S.seq_arr(jx), k))),
                          patterns=[Select(S.seq_arr(jx), k)])
            step = ForAll([x, y, k], Implies(And(R(g.t, x, y), S.dict_has(g, y), 0 <= k, k < S.seq_n(jy)),
                                              R(g.t, x, Select(S.seq_arr(jy), k))),
                          patterns=[z3.MultiPattern(R(g.t, x, y), Select(S.seq_arr(jy), k))])
            path.hyps.append(base)
            path.hyps.append(step)
            self.assumptions_used.add('Reach1: least relation closed under base/step (path of >= 1 edge through blocks of the graph); '
                                      'only base, step and explicitly instantiated closure principles are given to the solver')
            self.reach_axioms = getattr(self, 'reach_axioms', []) + [base, step]
        return S.vbool(R(g.t, a.t, b.t))

    def rind(self, ev, node, path, spec):
        """Closure principle instance (axiom R-ind, DESIGN section 6): a set that contains the successors of `a`
        and is closed under successors inside the graph contains everything reachable from `a`."""
        g, a, st = (ev.ev(x, path, spec) for x in node.args)
        a = self.named(ev, a, path, 'start')
        R = self.reach_pred(g)
        x, y = z3.FreshConst(S.sort_of(T_NAME), 'cx'), z3.FreshConst(S.sort_of(T_NAME), 'cy')
        k = z3.FreshInt('ck')
        scratch = Path({}, [])
        prev, self.in_axiom = self.in_axiom, True
        try:
            ja = self._jt_of(ev, g, a.t, scratch)
            jx = self._jt_of(ev, g, x, scratch)
        finally:
            self.in_axiom = prev
        prem1 = ForAll([k], Implies(And(0 <= k, k < S.seq_n(ja)), Select(st.t, Select(S.seq_arr(ja), k))))
        prem2 = ForAll([x, k], Implies(And(Select(st.t, x), S.dict_has(g, x), 0 <= k, k < S.seq_n(jx)),
                                       Select(st.t, Select(S.seq_arr(jx), k))))
        concl = ForAll([y], Implies(R(g.t, a.t, y), Select(st.t, y)), patterns=[R(g.t, a.t, y)])
        return S.vbool(Implies(And(prem1, prem2), concl))

    # ---- dominance (uninterpreted Dom with the local axioms D-entry / D-step; D-gfp by instance) -------------
    def dom_pred(self, E, P):
        return ufun('Dom', E.t.sort(), P.t.sort(), S.sort_of(T_NAME), S.sort_of(T_NAME), z3.BoolSort())

    def dominates(self, ev, node, path, spec):
        """dominates(entries, preds, a, n): every path e = v0 -> ... -> vk = n (k >= 0, e an entry, v_i in preds[v_i+1])
        passes a.  Given to the solver through two local consequences of that definition (DESIGN section 6):
          D-entry  for an entry e:  dominates(a, e) <=> a == e      (the path of length 0)
          D-step   dominates(a, n), a != n, p in preds[n]  =>  dominates(a, p)   (extend a path to p by the edge p -> n)"""
        E, P, a, n = (ev.ev(x, path, spec) for x in node.args)
        D = self.dom_pred(E, P)
        key = ('dom', E.t.get_id(), P.t.get_id())
        if key not in self._axiom_keys and ev.is_closed(E.t) and ev.is_closed(P.t):
            self._axiom_keys.add(key)
            x, y, z = (z3.Const(c, S.sort_of(T_NAME)) for c in ('dx', 'dy', 'dz'))
            entry = ForAll([x, y], Implies(Select(E.t, y), D(E.t, P.t, x, y) == (x == y)), patterns=[D(E.t, P.t, x, y)])
            step = ForAll([x, y, z], Implies(And(D(E.t, P.t, x, y), x != y, Select(Select(P.t, y), z)), D(E.t, P.t, x, z)),
                          patterns=[z3.MultiPattern(D(E.t, P.t, x, y), Select(Select(P.t, y), z))])
            refl = ForAll([x], D(E.t, P.t, x, x), patterns=[D(E.t, P.t, x, x)])
            path.hyps.extend([entry, step, refl])
            self.assumptions_used.add('Dom: path-based dominance given to the solver by its consequences D-entry, D-step, D-refl '
                                      'and explicitly instantiated D-gfp (DESIGN section 6; each evaluated against the brute-force '
                                      'definition at run time)')
        return S.vbool(D(E.t, P.t, a.t, n.t))

    def dgfp(self, ev, node, path, spec):
        """D-gfp instance: a family X with X[e] <= {e} on the entries and X[n] <= {n} | inter(X[p] for p in preds[n]) on the
        other nodes (all predecessors of nodes being nodes) contains only dominators (induction on the length of the
        entry-to-n path)."""
        E, P, nodes, X = (ev.ev(x, path, spec) for x in node.args)
        D = self.dom_pred(E, P)
        if isinstance(nodes, V) and nodes.ty[0] == 'seq' and ev.is_closed(nodes.t):
            ns = ev.named_set_of_seq(nodes, path)
        else:
            ns = self.to_set(nodes)
        x, y, z = (z3.FreshConst(S.sort_of(T_NAME), c) for c in ('gx', 'gy', 'gz'))
        inX = lambda n_, a_: And(S.dict_has(X, n_), Select(S.dict_get(X, n_).t, a_))
        prem_e = ForAll([y, x], Implies(And(Select(E.t, y), inX(y, x)), x == y))
        prem_n = ForAll([y, x], Implies(And(Select(ns.t, y), Not(Select(E.t, y)), inX(y, x), x != y),
                                        ForAll([z], Implies(Select(Select(P.t, y), z), inX(z, x)))))
        prem_c = ForAll([y, z], Implies(And(Select(ns.t, y), Select(Select(P.t, y), z)), Select(ns.t, z)))
        concl = ForAll([y, x], Implies(And(Select(ns.t, y), inX(y, x)), D(E.t, P.t, x, y)),
                       patterns=[z3.MultiPattern(Select(S.dict_get(X, y).t, x))])
        return S.vbool(Implies(And(prem_e, prem_n, prem_c), concl))

    def dict_store(self, d, key, val, path):
        """d[key] = val as a named dictionary with two-direction triggered frame axioms."""
        r = S.fresh(d.ty, 'dupd')
        k = z3.FreshConst(S.sort_of(d.ty[1]), 'dk')
        dd, dv, rd, rv = S.dict_dom(d), S.dict_val(d), S.dict_dom(r), S.dict_val(r)
        path.hyps.append(And(Select(rd, key), Select(rv, key) == val))
        body = Implies(k != key, And(Select(rd, k) == Select(dd, k), Select(rv, k) == Select(dv, k)))
        for pat in (Select(rv, k), Select(dv, k), Select(rd, k), Select(dd, k)):
            path.hyps.append(S.forall_p([k], body, [pat]))
        return r

    def heap_store(self, path, sub, graph):
        """heap[sub] = graph as a named heap with two-direction triggered frame axioms"""
        h = path.env['$heap']
        r = S.fresh(S.T_HEAP, 'heap')
        k = z3.FreshInt('hk')
        path.hyps.append(Select(r.t, sub.t) == graph.t)
        body = Implies(k != sub.t, Select(r.t, k) == Select(h.t, k))
        for pat in (Select(r.t, k), Select(h.t, k)):
            path.hyps.append(S.forall_p([k], body, [pat]))
        path.env['$heap'] = r

    def call_sub_method(self, ev, fv, node, path, spec):
        """a method of SCFG called on a region's sub-graph (`block.subregion.add_block(b)`): the callee's contract is applied
        to an SCFG object whose graph is the heap entry; the entry is written back"""
        base, meth = fv[1], fv[2]
        if path.env.get('$heap') is None:
            raise Unsupported('method call on a sub-graph outside heap mode')
        tmp = VObj('SCFG', {'graph': ev.sub_graph(base, path, None),
                            'name_gen': VObj('NameGenerator', {'kinds': S.fresh(S.parse_type('dict[name,int]'), 'sub_kinds')}),
                            'region': VObj('RegionRef', {'kind': S.fresh(T_NAME, 'sub_kind'), 'name': S.fresh(T_NAME, 'sub_rname')})})
        path.env['$sub'] = tmp
        qual = '%s:SCFG.%s' % (OBJ_MODULE['SCFG'], meth)
        r = self.call_contract(ev, qual, node, path, spec, self_val=tmp, self_node=ast.Name(id='$sub', ctx=ast.Load()))
        after = path.env.pop('$sub')
        if not after.f['graph'].t.eq(tmp.f['graph'].t):
            self.heap_store(path, base, after.f['graph'])
        return r

    def tmap_store(self, d, key, val, path):
        r = S.fresh(d.ty, 'tupd')
        k = z3.FreshConst(S.sort_of(d.ty[1]), 'tk')
        path.hyps.append(Select(r.t, key) == val)
        body = Implies(k != key, Select(r.t, k) == Select(d.t, k))
        for pat in (Select(r.t, k), Select(d.t, k)):
            path.hyps.append(S.forall_p([k], body, [pat]))
        return r

    # ---- restricted alias model: a mutable local stored inside a tuple that is appended to a list -----------------
    # `x = set(); L.append((a, x)); ...; x.add(k)`: L[i][1] IS the object x.  The list keeps a stale snapshot in the
    # environment; it is brought up to date (flushed) whenever L is read, when x is rebound and at loop heads, so every
    # observation of L sees the current x - exactly Python's sharing, for this one escape pattern.
    def record_alias(self, path, local, container, idx, field):
        al = dict(path.env.get('$aliases') or {})
        al[local] = (container, idx, field, None)
        path.env['$aliases'] = al

    def flush_aliases(self, path, container=None, local=None, drop=False):
        al = path.env.get('$aliases')
        if not al:
            return
        al = dict(al)
        saved_guards, path.guards = path.guards, []      # the facts defining the flushed list are unconditional
        try:
            self._flush(path, al, container, local, drop)
        finally:
            path.guards = saved_guards

    def _flush(self, path, al, container, local, drop):
        for name, (cont, idx, field, last) in list(al.items()):
            if (container is not None and cont != container) or (local is not None and name != local):
                continue
            cur = path.env.get(name)
            cv = path.env.get(cont)
            if isinstance(cur, V) and isinstance(cv, V) and cv.ty[0] == 'seq' and (last is None or last != cur.t.get_id()):
                elem = S.seq_get(cv, idx)
                et = cv.ty[1]
                pr = S.opt_val(elem) if et[0] == 'opt' else elem
                parts = [S.pair_get(pr, i) for i in range(len(pr.ty) - 1)]
                parts[field] = cur
                npr = S.mk_pair(parts)
                nel = S.opt_some(npr) if et[0] == 'opt' else npr
                path.env[cont] = self.seq_store(cv, idx, nel.t, S.seq_n(cv), path)
                al[name] = (cont, idx, field, cur.t.get_id())
                self.keepalive.append(cur.t)
            if drop:
                del al[name]
        path.env['$aliases'] = al

    def dict_remove(self, d, key, path):
        r = S.fresh(d.ty, 'ddel')
        k = z3.FreshConst(S.sort_of(d.ty[1]), 'dk')
        dd, dv, rd, rv = S.dict_dom(d), S.dict_val(d), S.dict_dom(r), S.dict_val(r)
        path.hyps.append(Not(Select(rd, key)))
        body = Implies(k != key, And(Select(rd, k) == Select(dd, k), Select(rv, k) == Select(dv, k)))
        for pat in (Select(rv, k), Select(dv, k), Select(rd, k), Select(dd, k)):
            path.hyps.append(S.forall_p([k], body, [pat]))
        return r

    def seq_store(self, base, i, x, n, path):
        """base[i] = x as a named array with two-direction triggered axioms (a bare
        Store term gives e-matching nothing to instantiate `exists k` goals with)."""
        arr = S.seq_arr(base)
        r = self.fresh_seq(base.ty[1], 'upd')
        ra = S.seq_arr(r)
        self.prefix_of[ra.get_id()] = (arr, i)          # r agrees with base below position i
        self.keepalive.extend([ra, arr])
        k = z3.FreshInt('uk')
        path.assume(S.seq_n(r) == n)
        path.assume(Select(ra, i) == x)
        path.assume(ForAll([k], Implies(k != i, Select(ra, k) == Select(arr, k)), patterns=[Select(ra, k)]))
        path.assume(ForAll([k], Implies(k != i, Select(ra, k) == Select(arr, k)), patterns=[Select(arr, k)]))
        return r

    def seq_remove_at(self, base, i, path):
        arr, n = S.seq_arr(base), S.seq_n(base)
        r = self.fresh_seq(base.ty[1], 'rm')
        j = z3.FreshInt('pj')
        ra = S.seq_arr(r)
        path.assume(S.seq_n(r) == n - 1)
        path.assume(ForAll([j], Implies(And(0 <= j, j < n - 1), Select(ra, j) == If(j < i, Select(arr, j), Select(arr, j + 1))),
                           patterns=[Select(ra, j)]))
        path.assume(ForAll([j], Implies(And(0 <= j, j < n, j != i), Select(arr, j) == If(j < i, Select(ra, j), Select(ra, j - 1))),
                           patterns=[Select(arr, j)]))
        return r

    # ---- assignment to lvalues ------------------------------------------------
    def assign_to(self, ev, target, val, path):
        if target is None:
            raise Unsupported('mutation of a temporary')
        if isinstance(target, ast.Name):
            if isinstance(path.env.get(target.id), Namespace):
                raise Unsupported('assignment to namespace')
            path.env[target.id] = val
            return
        if isinstance(target, ast.Attribute):
            obj = ev.ev(target.value, path, False)
            if isinstance(obj, V) and obj.ty == S.T_SUB and target.attr == 'graph' and path.env.get('$heap') is not None:
                self.heap_store(path, obj, val)
                return
            if not isinstance(obj, VObj):
                raise Unsupported('attribute assignment on non-object: ' + ast.unparse(target))
            new = obj.copy()
            cur = obj.f.get(target.attr)
            if isinstance(cur, V) and isinstance(val, V) and cur.ty != val.ty:
                val = self.coerce(val, cur.ty, ev)
            new.f[target.attr] = val
            self.assign_to(ev, target.value, new, path)
            return
        if isinstance(target, ast.Subscript):
            base = ev.ev(target.value, path, False)
            idx = ev.ev(target.slice, path, False)
            if isinstance(base, VObj) and base.cls == 'SCFG':
                raise Unsupported('scfg[...] = ')
            if base.ty[0] == 'seq':
                n = S.seq_n(base)
                self.add_obligation(path, 'noraise', ast.unparse(target) + ' = ...', And(0 <= idx.t, idx.t < n), 'IndexError')
                new = self.seq_store(base, idx.t, self.coerce(val, base.ty[1], ev).t, n, path)
            elif base.ty[0] == 'dict':
                new = self.dict_store(base, idx.t, self.coerce(val, base.ty[2], ev).t, path)
            elif base.ty[0] == 'tmap':
                new = self.tmap_store(base, idx.t, self.coerce(val, base.ty[2], ev).t, path)
            else:
                raise Unsupported('subscript store on %r' % (base.ty,))
            self.assign_to(ev, target.value, new, path)
            return
        raise Unsupported('assignment target ' + type(target).__name__)

    # ---- contracts at call sites ---------------------------------------------
    def block_member(self, ev, base, attr, path, spec):
        cs = SRC.block_classes()
        is_prop = any(attr in d['props'] for d in cs.values())
        if is_prop:
            return self.dispatch_block(ev, base, attr, None, path, spec)
        return ('blockmember', base, attr)

    def call_block_method(self, ev, base, attr, node, path, spec):
        return self.dispatch_block(ev, base, attr, node, path, spec)

    def dispatch_block(self, ev, base, attr, node, path, spec):
        cs = SRC.block_classes()
        owners = {}
        for cname in cs:
            o = SRC.method_owner(cname, attr)
            if o is not None:
                owners.setdefault(o, []).append(cname)
        if not owners:
            raise Unsupported('no block member ' + attr)
        tag = S.block_field(base, 'cls').t
        results = []
        # most specific owners first; BasicBlock's version is the default arm
        order = sorted(owners, key=lambda o: -len(SRC.mro(o)))
        for o in order:
            guard = Or(*[tag == cs[c]['id'] for c in owners[o]]) if len(order) > 1 else BoolVal(True)
            qual = '%s:%s.%s' % (SRC.BB_MOD, o, attr)
            path.guards.append(guard)
            try:
                sn = node.func.value if (node is not None and isinstance(node.func, ast.Attribute)) else None
                r = self.call_contract(ev, qual, node, path, spec, self_val=base, self_node=sn)
            finally:
                path.guards.pop()
            results.append((guard, r))
        out = results[-1][1]
        for guard, r in reversed(results[:-1]):
            if out.ty != r.ty:
                raise Unsupported('dispatch result types differ')
            out = V(r.ty, If(guard, r.t, out.t))
        return out

    def flatten(self, v, prefix, out):
        if isinstance(v, VObj):
            for k in sorted(v.f):
                self.flatten(v.f[k], prefix + '.' + k, out)
        elif isinstance(v, V) and v.ty != T_NONE:
            out.append((prefix, v))
        elif isinstance(v, V):
            pass
        else:
            raise Unsupported('cannot pass %r to a pure function' % (v,))

    def rebuild(self, v, prefix, mapping):
        if isinstance(v, VObj):
            return VObj(v.cls, {k: self.rebuild(x, prefix + '.' + k, mapping) for k, x in v.f.items()})
        if isinstance(v, V) and v.ty != T_NONE:
            return mapping[prefix]
        return v

    def bind_args(self, c, node, ev, path, spec, self_val):
        m, fn, cls = SRC.find_function(c.qual)
        names = list(c.params)
        vals, nodes = {}, {}
        pos = 0
        if self_val is not None:
            vals[names[0]] = self_val
            pos = 1
        if node is not None:
            va = fn.args.vararg.arg if (fn is not None and fn.args.vararg) else None
            nfixed = len(fn.args.args) if fn is not None else len(names)
            extra = []
            for a in node.args:
                if va is not None and pos >= nfixed:
                    extra.append(ev.ev(a, path, spec))      # *args: packed into a tuple
                    continue
                vals[names[pos]] = ev.ev(a, path, spec)
                nodes[names[pos]] = a
                pos += 1
            if va is not None:
                want_ = S.parse_type(c.params[va])
                vals[va] = S.seq_from_list(want_[1], extra)
            for k in node.keywords:
                vals[k.arg] = ev.ev(k.value, path, spec)
                nodes[k.arg] = k.value
        # defaults from the real signature
        if fn is not None:
            args = fn.args.args
            dflts = fn.args.defaults
            for a, d in zip(args[len(args) - len(dflts):], dflts):
                if a.arg not in vals and a.arg in names:
                    vals[a.arg] = Evaluator(self, m.name).ev(d, path, True)
        if not spec and not c.pure:
            for n in list(vals):
                v = vals[n]
                if isinstance(v, V) and v.ty[0] in ('block', 'seq') and not z3.is_const(v.t) and self.term_size(v.t) > 3:
                    cst = S.fresh(v.ty, 'arg_' + n)
                    ln = S.seq_n(v) if v.ty[0] == 'seq' else None
                    if ln is not None and z3.is_int_value(ln) and ln.as_long() <= 8:
                        # literal list: length and elements only (a constant-array equality hurts e-matching);
                        # the ground element terms give quantifiers over its positions something to match
                        path.assume(S.seq_n(cst) == ln)
                        for i_ in range(ln.as_long()):
                            path.assume(Select(S.seq_arr(cst), i_) == z3.simplify(Select(S.seq_arr(v), i_)))
                    else:
                        path.assume(cst.t == v.t)
                    vals[n] = cst
        for n in names:
            if n not in vals:
                raise Unsupported('missing argument %s for %s' % (n, c.qual))
            want = S.parse_type(c.params[n])
            if isinstance(vals[n], tuple) and vals[n][0] == 'emptyseq' and want[0] == 'seq':
                vals[n] = S.seq_from_list(want[1], [])
            if isinstance(vals[n], tuple) and vals[n][0] == 'extref' and want == ('pyclass',):
                vals[n] = V(('pyclass',), S.name_lit('.'.join(vals[n][1:])).t)
            if isinstance(vals[n], V) and want[0] != 'obj' and vals[n].ty != want:
                vals[n] = self.coerce_arg(vals[n], want, ev, path)
        return vals, nodes

    def coerce_arg(self, v, want, ev, path):
        if v.ty[0] == 'pair' and want[0] == 'seq':
            return ev.pair_to_seq(v, want[1])
        if want[0] == 'opt' and v.ty == want[1]:
            return S.opt_some(v)
        if want[0] == 'opt' and v.ty == T_NONE:
            return S.opt_none(want[1])
        if want[0] == 'set' and v.ty[0] in ('seq', 'dict'):
            return self.to_set(v)
        raise Unsupported('argument type %r where %r expected' % (v.ty, want))

    def call_contract(self, ev, qual, node, path, spec, self_val=None, self_node=None):
        c = REGISTRY.get(qual)
        if c is None:
            raise Unsupported('no contract for callee ' + qual)
        cm = qual.split(':')[0]
        vals, nodes = self.bind_args(c, node, ev, path, spec, self_val)
        site = ast.unparse(node) if node is not None else qual.split(':')[1]
        if c.trusted:
            self.assumptions_used.add('trusted contract: ' + qual)
        if c.heap and path.env.get('$heap') is None:
            # a heap-mode function called from a value-mode caller: it only writes inside region sub-graphs, which the
            # caller's level does not see; its preconditions on the heap cannot be stated here and are not checked
            if set(c.modifies) - {'$heap'}:
                raise Unsupported('heap-mode callee %s modifies caller-visible state' % qual)
            self.assumptions_used.add('call of the heap-mode function %s from a value-mode caller: no effect at the caller\'s level; '
                                      'its heap preconditions are not checked at this call (hierarchy clause: run-time contracts)' % qual.split(':')[1])
            return NONE
        if c.heap:
            # heap-mode callee: its contract reads the heap of the call (`graph_at_entry` = the heap at the call)
            vals['$heap'] = path.env['$heap']
            vals['$heap0'] = path.env['$heap']
        # ---- inline definitions
        if c.inline is not None:
            sub = Evaluator(self, cm)
            p = Path(dict(vals), path.hyps)
            p.guards = path.guards
            return sub.ev(ast.parse(c.inline, mode='eval').body, p, True)
        # ---- preconditions
        hier = None
        if not spec and not c.heap and path.env.get('$heap') is not None and (qual + '#hier') in REGISTRY:
            # heap-mode caller of a function that has a hierarchy view: the view's additional preconditions are obligations
            # of this call, its postconditions are assumed together with the main view's (the heap is havoced)
            hier = REGISTRY[qual + '#hier']
            vals['$heap'] = path.env['$heap']
            vals['$heap0'] = path.env['$heap']
            for cn, text in hier.requires.items():
                if c.requires.get(cn) == text:
                    continue
                g = self.spec_formula(ast.parse(text, mode='eval').body, vals, path, cm)
                self.add_obligation(path, 'call-pre', '%s:%s' % (site, cn), g)
        if not spec:
            for cn, text in c.requires.items():
                g = self.spec_formula(ast.parse(text, mode='eval').body, vals, path, cm)
                self.add_obligation(path, 'call-pre', '%s:%s' % (site, cn), g)
            for exc, text in c.raises.items():
                g = self.spec_formula(ast.parse(text, mode='eval').body, vals, path, cm)
                self.add_obligation(path, 'noraise', '%s raises %s' % (site, exc), Not(g), exc)
        rty = S.parse_type(c.returns) if c.returns else None
        if c.pure:
            flat = []
            for n in c.params:
                self.flatten(vals[n], n, flat)
            if rty is None or rty[0] == 'obj':
                raise Unsupported('pure contract without value result')
            fsym = ufun('F!' + qual, *([S.sort_of(v.ty) for _, v in flat] + [S.sort_of(rty)]))
            res = V(rty, fsym(*[v.t for _, v in flat]))
            self.pure_axiom(c, cm, vals, flat, fsym, rty)
            if not spec:
                env = dict(vals)
                env['old'] = Namespace(dict(vals))
                env['result'] = res
                self.define_result, self.result_defined = True, False
                try:
                    for cn, text in c.ensures.items():
                        if c.axiom_clauses is not None and cn not in c.axiom_clauses:
                            continue   # clauses proved of the body but not offered to callers (they cause matching loops)
                        path.assume(self.spec_formula(ast.parse(text, mode='eval').body, env, path, cm))
                finally:
                    self.define_result = False
            return res
        if spec:
            raise Unsupported('call of impure %s in contract text' % qual)
        # ---- impure: havoc the modified locations, assume the postconditions
        pre = {k: (v.copy() if isinstance(v, VObj) else v) for k, v in vals.items()}
        post = {k: (v.copy() if isinstance(v, VObj) else v) for k, v in vals.items()}
        assign_clauses = {}
        for cn, text in c.ensures.items():
            nd = ast.parse(text, mode='eval').body
            if isinstance(nd, ast.Compare) and len(nd.ops) == 1 and isinstance(nd.ops[0], ast.Eq):
                lhs = ast.unparse(nd.left)
                if lhs in c.modifies or lhs == 'result':
                    if not (isinstance(nd.comparators[0], ast.Call) and getattr(nd.comparators[0].func, 'id', '') == 'sorted'):
                        assign_clauses[lhs] = (cn, nd.comparators[0])
        env = dict(post)
        env['old'] = Namespace(pre)
        res = None
        done = set()
        for loc in c.modifies:
            if loc in assign_clauses:
                cn, rhs = assign_clauses[loc]
                val = Evaluator(self, cm).ev(rhs, Path(env, path.hyps), True)
                done.add(cn)
            else:
                cur = self.get_loc(env, loc)
                val = S.fresh(cur.ty, 'hv_' + loc.replace('.', '_'))
            self.set_loc(env, loc, val)
        if rty is not None:
            if 'result' in assign_clauses:
                cn, rhs = assign_clauses['result']
                res = Evaluator(self, cm).ev(rhs, Path(env, path.hyps), True)
                if isinstance(res, V) and res.ty != rty:
                    res = self.coerce_arg(res, rty, ev, path)
                done.add(cn)
            elif rty[0] == 'obj':
                raise Unsupported('object result needs an assign-form clause')
            else:
                res = S.fresh(rty, 'res')
            env['result'] = res
        for cn, text in c.ensures.items():
            if cn in done:
                continue
            # frame clauses talk about the callee's havoced post-state, whose representation is ours to choose:
            # entries that are Python-equal to pre-state entries share their representation
            self.intensional_eq = cn in c.frame_clauses
            try:
                f_ = path.assume(self.spec_formula(ast.parse(text, mode='eval').body, env, path, cm))
            finally:
                self.intensional_eq = False
            self.labels[f_.get_id()] = cn      # callee postconditions can be selected by proof hints
        if hier is not None:
            h_post = S.fresh(S.T_HEAP, 'heapc')
            env['$heap'] = h_post
            for cn, text in hier.ensures.items():
                f_ = path.assume(self.spec_formula(ast.parse(text, mode='eval').body, env, path, cm))
                self.labels[f_.get_id()] = cn
            path.env['$heap'] = h_post
        # ---- write back modified arguments
        for loc in c.modifies:
            root = loc.split('.')[0]
            newv = env[root]
            if root == '$heap':
                path.env['$heap'] = newv
                continue
            if root == list(c.params)[0] and self_val is not None:
                tgt = self_node
            else:
                tgt = nodes.get(root)
            if tgt is None:
                raise Unsupported('cannot write back %s of %s' % (loc, qual))
            self.assign_to(ev, tgt, newv, path)
        return res if res is not None else NONE

    def get_loc(self, env, loc):
        parts = loc.split('.')
        v = env[parts[0]]
        for p in parts[1:]:
            v = v.f[p]
        return v

    def set_loc(self, env, loc, val):
        parts = loc.split('.')
        if len(parts) == 1:
            env[parts[0]] = val
            return
        root = env[parts[0]].copy()
        env[parts[0]] = root
        o = root
        for p in parts[1:-1]:
            o = o.f[p]
        o.f[parts[-1]] = val

    def pure_axiom(self, c, cm, vals, flat, fsym, rty):
        key = ('pure', c.qual)
        if key in self._axiom_keys:
            return
        self._axiom_keys.add(key)   # before compiling: recursion guard
        consts = {n: V(v.ty, z3.Const('ax!%s!%s' % (c.qual.split(':')[1], n), S.sort_of(v.ty))) for n, v in flat}
        env = {n: self.rebuild(vals[n], n, consts) for n in c.params}
        res = V(rty, fsym(*[consts[n].t for n, _ in flat]))
        scratch = Path({}, [])
        prev, self.in_axiom = self.in_axiom, True
        try:
            env2 = dict(env)
            env2['old'] = Namespace(dict(env))
            env2['result'] = res
            req = [self.spec_formula(ast.parse(t, mode='eval').body, env, scratch, cm) for t in c.requires.values()]
            self.define_result, self.result_defined = True, False
            ens = [self.spec_formula(ast.parse(t, mode='eval').body, env2, scratch, cm) for cn_, t in c.ensures.items()
                   if c.axiom_clauses is None or cn_ in c.axiom_clauses]
        finally:
            self.in_axiom = prev
            self.define_result = False
        if scratch.hyps:
            raise Unsupported('pure contract %s uses constructs that need definitional assumptions' % c.qual)
        if not ens:
            return
        body = Implies(And(*req), And(*ens)) if req else And(*ens)
        bound = [consts[n].t for n, _ in flat]
        self.axioms.append(ForAll(bound, body, patterns=[res.t]) if bound else body)

    # ======================================================================
    # statements
    # ======================================================================
    def evaluator(self):
        return Evaluator(self, self.mod.name, self.cls.name if self.cls else None)

    def run(self, stmts, path):
        paths = [(path, None)]
        for st in stmts:
            nxt = []
            for p, o in paths:
                if o is not None:
                    nxt.append((p, o))
                else:
                    nxt.extend(self.exec(st, p))
            paths = nxt
            if len(paths) > 400:
                raise Unsupported('path explosion')
        return paths

    def exec(self, st, path):
        m = getattr(self, 'st_' + type(st).__name__, None)
        if m is None:
            raise Unsupported('statement ' + type(st).__name__)
        if self.c.view_of and REGISTRY[self.c.view_of].cuts:
            src = ast.unparse(st)
            for key, clauses in REGISTRY[self.c.view_of].cuts.items():
                if key.startswith('end:'):
                    continue
                base, _, ordn = key.partition('#')
                if src.startswith(base):
                    if ordn:
                        same = [id(n) for n in ast.walk(self.fn) if isinstance(n, ast.stmt) and ast.unparse(n).startswith(base)]
                        if same.index(id(st)) != int(ordn):
                            continue
                    env = dict(path.env, old=self.old_ns)
                    for cn, text in clauses.items():
                        f = path.assume(self.spec_formula(ast.parse(text, mode='eval').body, env, path))
                        self.labels[f.get_id()] = 'main:' + cn
        if self.c.cuts:
            src = ast.unparse(st)
            for key, clauses in self.c.cuts.items():
                if key.startswith('end:'):
                    continue
                base, _, ordn = key.partition('#')
                if src.startswith(base):
                    if ordn:
                        # k-th statement (in source order) with this text
                        same = [id(n) for n in ast.walk(self.fn) if isinstance(n, ast.stmt) and ast.unparse(n).startswith(base)]
                        if same.index(id(st)) != int(ordn):
                            continue
                    self.bound_cuts.add(key)
                    env = dict(path.env, old=self.old_ns)
                    for cn, text in clauses.items():
                        g = self.spec_formula(ast.parse(text, mode='eval').body, env, path)
                        if text.strip().startswith('fact('):
                            self.labels[path.assume(g).get_id()] = cn     # instance of a clause proved elsewhere
                            continue
                        self.add_obligation(path, 'cut', '%s:%s' % (key[:40], cn), g)
        return m(st, path)

    def st_Pass(self, st, path):
        return [(path, None)]

    def st_Import(self, st, path):
        for a in st.names:
            path.env[a.asname or a.name] = ('extref', a.name)
        return [(path, None)]

    def st_ImportFrom(self, st, path):
        # deferred imports inside method bodies: resolved through the module table
        for a in st.names:
            sub = st.module + '.' + a.name
            g = SRC.resolve_global(st.module, a.name)
            if g is not None and g[0] == 'func':
                path.env[a.asname or a.name] = ('funcref', g[1] + ':' + g[2])
        return [(path, None)]

    def st_Break(self, st, path):
        return [(path, 'break')]

    def st_Continue(self, st, path):
        return [(path, 'continue')]

    def st_Expr(self, st, path):
        if isinstance(st.value, ast.Constant):
            return [(path, None)]   # docstring
        if isinstance(st.value, ast.Call) and isinstance(st.value.func, ast.Attribute) \
                and isinstance(st.value.func.value, ast.Name) and st.value.func.value.id == '_logger':
            self.assumptions_used.add('_logger.debug(...) is effect-free (dropped)')
            return [(path, None)]
        if isinstance(st.value, ast.Call) and ast.unparse(st.value.func) == 'object.__setattr__' and len(st.value.args) == 3 \
                and isinstance(st.value.args[1], ast.Constant):
            tgt_, fld, valn = st.value.args[0], st.value.args[1].value, st.value.args[2]
            ev_ = self.evaluator()
            obj = ev_.ev(tgt_, path, False)
            if fld == 'region' and isinstance(obj, VObj) and obj.cls == 'SCFG' and 'region' in obj.f:
                # the record of the region a graph belongs to: its kind and name are what contracts read (`self.region.kind`)
                blk = ev_.ev(valn, path, False)
                if isinstance(blk, V) and blk.ty == T_BLOCK:
                    ref = VObj('RegionRef', {'kind': S.block_field(blk, 'kind'), 'name': S.block_field(blk, 'name')})
                    self.assign_to(ev_, ast.Attribute(value=tgt_, attr='region', ctx=ast.Store()), ref, path)
                    return [(path, None)]
            if fld in ('parent_region', 'region'):
                ev_.ev(valn, path, False)
                self.assumptions_used.add(BACKPTR)
                return [(path, None)]
            if isinstance(obj, V) and obj.ty == T_BLOCK and fld in dict(S.BLOCK_FIELDS) and isinstance(tgt_, ast.Name):
                # in-place write of a field of a (frozen dataclass) block the name is bound to; other references to the
                # same object are outside the model (the callers' contracts say which object they pass)
                v = self.coerce(ev_.ev(valn, path, False), dict(S.BLOCK_FIELDS)[fld], ev_)
                path.env[tgt_.id] = S.block_replace(obj, **{fld: v})
                return [(path, None)]
            raise Unsupported('object.__setattr__ on ' + ast.unparse(tgt_))
        if isinstance(st.value, ast.Yield):
            v = self.evaluator().ev(st.value.value, path, False)
            cur = path.env['_yielded']
            if self.c.yield_check:
                self.add_obligation(path, 'yield-item', ast.unparse(st.value),
                                    self.spec_formula(ast.parse(self.c.yield_check, mode='eval').body, dict(path.env, it=v), path))
            if isinstance(self.c.yield_key, str):
                v = S.block_field(v, self.c.yield_key)          # the ghost set holds a field of the yielded block
            elif self.c.yield_key is not None:
                v = S.seq_get(v, IntVal(self.c.yield_key)) if v.ty[0] == 'seq' else S.pair_get(v, self.c.yield_key)
            self.add_obligation(path, 'yield-once', ast.unparse(st.value), Not(Select(cur.t, v.t)))
            path.env['_yielded'] = V(cur.ty, Store(cur.t, v.t, True))
            return [(path, None)]
        if isinstance(st.value, ast.YieldFrom):
            # `yield from <sub-graph>`: the items of the nested iteration (this same generator on the sub-graph, used through
            # its contract): the ghost set grows by hier_names(sub), none of which may have been yielded before
            yv = st.value.value
            ghost = 'hier_names'
            if isinstance(yv, ast.Call) and isinstance(yv.func, ast.Attribute) and yv.func.attr == self.fn.name and not yv.args:
                # `yield from <sub-graph>.<this generator>()`: the recursive call, used through this contract: it yields the
                # ghost set of the sub-graph (the contract's `yield_ghost` function)
                yv = yv.func.value
                ghost = self.c.yield_ghost or ghost
            sub = self.evaluator().ev(yv, path, False)
            if not (isinstance(sub, V) and sub.ty == S.T_SUB and self.c.yield_key is not None):
                raise Unsupported('yield from')
            cur = path.env['_yielded']
            hn = ufun(ghost, z3.IntSort(), S.sort_of(cur.ty))(sub.t)
            x = z3.FreshConst(S.sort_of(cur.ty[1]), 'yx')
            self.add_obligation(path, 'yield-once', ast.unparse(st.value), ForAll([x], Implies(Select(hn, x), Not(Select(cur.t, x)))))
            r = S.fresh(cur.ty, 'yielded')
            body_ = Select(r.t, x) == Or(Select(cur.t, x), Select(hn, x))
            for pat in (Select(r.t, x), Select(hn, x)) + ((Select(cur.t, x),) if z3.is_const(cur.t) else ()):
                path.hyps.append(S.forall_p([x], body_, [pat]))
            path.env['_yielded'] = r
            return [(path, None)]
        self.evaluator().ev(st.value, path, False)
        return [(path, None)]

    def st_AnnAssign(self, st, path):
        if st.value is None:
            return [(path, None)]
        return self.st_Assign(ast.Assign(targets=[st.target], value=st.value), path)

    def typed_empty(self, name, marker):
        t = self.c.locals.get(name)
        if t is None:
            raise Unsupported('empty literal assigned to %s: add its type to Contract.locals' % name)
        ty = S.parse_type(t)
        if ty[0] == 'seq':
            return S.seq_from_list(ty[1], [])
        if ty[0] == 'set':
            return S.set_empty(ty[1])
        if ty[0] == 'dict':
            return S.dict_empty(ty[1], ty[2])
        if ty[0] == 'tmap':
            if ty[2][0] != 'set':
                raise Unsupported('defaultdict factory %r' % (ty[2],))
            return V(ty, z3.K(S.sort_of(ty[1]), S.set_empty(ty[2][1]).t))
        raise Unsupported('typed empty %r' % (ty,))

    def st_Assign(self, st, path):
        ev = self.evaluator()
        v = st.value
        tname = st.targets[0].id if isinstance(st.targets[0], ast.Name) else None
        empty = (isinstance(v, (ast.List, ast.Tuple)) and not v.elts) or (isinstance(v, ast.Dict) and not v.keys)
        if isinstance(v, ast.DictComp) and tname is not None and len(v.generators) == 1 and not v.generators[0].ifs \
                and any(isinstance(n_, ast.Call) for n_ in ast.walk(v.value)) and tname in self.c.locals:
            # {k: f(...) for x in it} with a call in the value: executed as  d = {}; for x in it: d[k] = f(...)
            path.env[tname] = self.typed_empty(tname, None)
            g_ = v.generators[0]
            loop = ast.For(target=g_.target, iter=g_.iter, orelse=[], body=[ast.Assign(
                targets=[ast.Subscript(value=ast.Name(id=tname, ctx=ast.Load()), slice=v.key, ctx=ast.Store())], value=v.value)])
            ast.copy_location(loop, st)
            ast.fix_missing_locations(loop)
            self.loop_ordinals[id(loop)] = 0
            self.seen_loop_keys.add(self.loop_key(loop))
            return self.st_For(loop, path)
        if empty:
            val = self.typed_empty(tname, None)
        else:
            val = ev.ev(v, path, False)
            if isinstance(val, tuple) and val[0] in ('emptyseq', 'emptyset', 'emptydict', 'emptytmap'):
                val = self.typed_empty(tname, None)
        small_literal = isinstance(val, V) and val.ty[0] == 'seq' and (S.literal_elements(val) or [0] * 9).__len__() <= 2 \
            and all(self.term_size(e_) <= 8 for e_ in (S.literal_elements(val) or []))
        if isinstance(val, V) and tname is not None and val.ty[0] in ('seq', 'block', 'dict') and not small_literal \
                and not z3.is_const(val.t) and self.term_size(val.t) > int(os.environ.get('PYVC_LET', '3')):
            # let-abstraction: name a large term (keeps later formulas and patterns small)
            c = S.fresh(val.ty, 'let_' + tname)
            path.hyps.append(c.t == val.t)
            val = c
        for tgt in st.targets:
            self.assign_target(ev, tgt, val, path)
        return [(path, None)]

    def term_size(self, t, limit=40):
        n, stack = 0, [t]
        while stack and n <= limit:
            x = stack.pop()
            n += 1
            if z3.is_app(x):
                stack.extend(x.children())
        return n

    def assign_target(self, ev, tgt, val, path):
        if isinstance(tgt, (ast.Tuple, ast.List)):
            k = len(tgt.elts)
            if isinstance(val, tuple) and val[0] == 'pytuple':
                parts = val[1]
            elif isinstance(val, V) and val.ty[0] == 'pair':
                parts = [S.pair_get(val, i) for i in range(k)]
            elif isinstance(val, V) and val.ty[0] == 'seq':
                self.add_obligation(path, 'noraise', 'unpack ' + ast.unparse(tgt), S.seq_n(val) == k, 'ValueError')
                parts = [S.seq_get(val, IntVal(i)) for i in range(k)]
            elif isinstance(val, V) and val.ty[0] == 'set':
                raise Unsupported('unpack of set')
            else:
                raise Unsupported('unpack')
            for e, p in zip(tgt.elts, parts):
                self.assign_target(ev, e, p, path)
            return
        if isinstance(tgt, ast.Name):
            al = path.env.get('$aliases')
            if al and tgt.id in al:
                self.flush_aliases(path, local=tgt.id, drop=True)       # the list keeps the old object
            if al and any(a_[0] == tgt.id for a_ in al.values()):
                al2 = {k_: v_ for k_, v_ in al.items() if v_[0] != tgt.id}   # the container name is rebound
                self.flush_aliases(path, container=tgt.id)
                path.env['$aliases'] = al2
            if isinstance(val, tuple) and val and val[0] in ('emptyseq', 'emptyset', 'emptydict', 'emptytmap'):
                val = self.typed_empty(tgt.id, None)
            if isinstance(val, V) and tgt.id in self.c.locals:
                want = S.parse_type(self.c.locals[tgt.id])
                if val.ty != want and want[0] != 'obj':
                    val = self.coerce_arg(val, want, ev, path)
            path.env[tgt.id] = val
            return
        self.assign_to(ev, tgt, val, path)

    def st_AugAssign(self, st, path):
        ev = self.evaluator()
        cur = ev.ev(st.target, path, False)
        rhs = ev.ev(st.value, path, False)
        op = type(st.op)
        if cur.ty == T_INT and op in (ast.Add, ast.Sub):
            new = S.vint(cur.t + rhs.t if op is ast.Add else cur.t - rhs.t)
        elif cur.ty[0] == 'set' and op in (ast.BitOr, ast.Sub, ast.BitAnd):
            x = z3.FreshConst(S.sort_of(cur.ty[1]), 'ax')
            o = self.to_set(rhs)
            f = {ast.BitOr: Or(Select(cur.t, x), Select(o.t, x)),
                 ast.Sub: And(Select(cur.t, x), Not(Select(o.t, x))),
                 ast.BitAnd: And(Select(cur.t, x), Select(o.t, x))}[op]
            # named result with its definition triggered from the result and from both operands
            new = S.fresh(cur.ty, 'setaug')
            body_ = Select(new.t, x) == f
            pats = [Select(new.t, x)] + [Select(t_, x) for t_ in (cur.t, o.t) if z3.is_const(t_) and t_.decl().kind() == z3.Z3_OP_UNINTERPRETED]
            for pat in pats:
                path.hyps.append(S.forall_p([x], body_, [pat]))
        else:
            raise Unsupported('augmented assignment')
        self.assign_target(ev, st.target, new, path)
        return [(path, None)]

    def st_Delete(self, st, path):
        ev = self.evaluator()
        for tgt in st.targets:
            if not isinstance(tgt, ast.Subscript):
                raise Unsupported('del')
            base = ev.ev(tgt.value, path, False)
            idx = ev.ev(tgt.slice, path, False)
            if base.ty[0] != 'dict':
                raise Unsupported('del on %r' % (base.ty,))
            self.add_obligation(path, 'noraise', 'del ' + ast.unparse(tgt), S.dict_has(base, idx.t), 'KeyError')
            self.assign_to(ev, tgt.value, self.dict_remove(base, idx.t, path), path)
        return [(path, None)]

    def st_Assert(self, st, path):
        ev = self.evaluator()
        if isinstance(st.test, ast.Call) and isinstance(st.test.func, ast.Name) and st.test.func.id == 'isinstance' \
                and not (isinstance(ev.ev(st.test.args[0], path, False), V) and ev.ev(st.test.args[0], path, False).ty == T_BLOCK):
            return [(path, None)]   # assert isinstance(offset, int) on a sorted value: typing fact
        g = ev.ev_bool(st.test, path, False)
        self.add_obligation(path, 'noraise', 'assert ' + ast.unparse(st.test), g, 'AssertionError')
        if z3.is_false(z3.simplify(g)):
            return []      # `assert False`: the obligation says the point is unreachable; no path continues
        return [(path, None)]

    def st_Raise(self, st, path):
        exc = st.exc
        name = exc.func.id if isinstance(exc, ast.Call) and isinstance(exc.func, ast.Name) else (exc.id if isinstance(exc, ast.Name) else '?')
        return [(path, ('raise', name))]

    def st_Return(self, st, path):
        ev = self.evaluator()
        if st.value is None:
            return [(path, ('return', NONE))]
        rty = S.parse_type(self.c.returns) if self.c.returns else None
        if isinstance(st.value, ast.Tuple) and rty is not None and rty[0] == 'pair':
            vals = [ev.ev(e, path, False) for e in st.value.elts]
            vals = [v if v.ty == t else self.coerce_arg(v, t, ev, path) for v, t in zip(vals, rty[1:])]
            return [(path, ('return', S.mk_pair(vals)))]
        v = ev.ev(st.value, path, False)
        if isinstance(v, V) and rty is not None and rty[0] != 'obj' and v.ty != rty:
            v = self.coerce_arg(v, rty, ev, path)
        return [(path, ('return', v))]

    def st_If(self, st, path):
        ev = self.evaluator()
        c = ev.ev_bool(st.test, path, False)
        c = z3.simplify(c)
        out = []
        narrow = None
        t_ = st.test
        if isinstance(t_, ast.Compare) and len(t_.ops) == 1 and isinstance(t_.ops[0], (ast.Is, ast.IsNot)) and isinstance(t_.left, ast.Name) \
                and isinstance(t_.comparators[0], ast.Constant) and t_.comparators[0].value is None:
            v_ = path.env.get(t_.left.id)
            if isinstance(v_, V) and v_.ty[0] == 'opt':
                narrow = (t_.left.id, isinstance(t_.ops[0], ast.Is))
        for bi, (cond, body) in enumerate(((c, st.body), (Not(c), st.orelse))):
            if z3.is_false(z3.simplify(cond)):
                continue
            p1 = path.copy()
            p1.assume(cond)
            if narrow is not None and ((bi == 1) == narrow[1]):
                p1.env[narrow[0]] = S.opt_val(p1.env[narrow[0]])     # known not None on this branch
            try:
                out += self.run(body, p1)
            except Unsupported:
                # an unsupported construct on an infeasible path does not matter
                s_ = z3.Solver()
                s_.set('timeout', 3000)
                s_.add(*background(self))
                s_.add(*p1.hyps)
                if s_.check() != z3.unsat:
                    raise
                self.pruned.append(ast.unparse(st.test))
        return out

    def st_Try(self, st, path):
        # only: try: <one simple statement> except <E>: <handler> [finally: ...]
        if len(st.handlers) != 1 or st.orelse:
            raise Unsupported('try form')
        multi = len(st.body) != 1
        h = st.handlers[0]
        types = [h.type.id] if isinstance(h.type, ast.Name) else None
        if types is None:
            raise Unsupported('except form')
        pre = path.copy()
        self.catch = {'types': types, 'conds': []}
        try:
            outs = self.run(st.body, path)
        finally:
            conds = self.catch['conds']
            self.catch = None
        if multi and conds:
            raise Unsupported('try body of several statements one of which can raise the caught exception')
        ok = And(*conds) if conds else BoolVal(True)
        res = []
        for p, o in outs:
            p.assume(ok)
            res.append((p, o))
        if conds:
            pre.assume(Not(ok))
            res += self.run(h.body, pre)
        final = []
        for p, o in res:
            if o is None or st.finalbody:
                fo = self.run(st.finalbody, p) if st.finalbody else [(p, None)]
                for p2, o2 in fo:
                    final.append((p2, o2 if o2 is not None else o))
            else:
                final.append((p, o))
        return final

    # ---------------------------------------------------------------- loops
    def write_set(self, stmts):
        """Syntactic over-approximation of what a statement list may modify:
        local names and attribute chains rooted at a name."""
        names, locs = set(), set()

        def root_chain(n):
            parts = []
            while isinstance(n, ast.Attribute):
                parts.append(n.attr)
                n = n.value
            if isinstance(n, ast.Subscript):
                return root_chain(n.value)
            if isinstance(n, ast.Name):
                return [n.id] + parts[::-1]
            return None

        def tgt(t):
            if isinstance(t, ast.Name):
                names.add(t.id)
            elif isinstance(t, (ast.Tuple, ast.List)):
                for e in t.elts:
                    tgt(e)
            elif isinstance(t, (ast.Subscript, ast.Attribute)):
                ch = root_chain(t.value if isinstance(t, ast.Subscript) else t)
                if ch:
                    (names if len(ch) == 1 else locs).add('.'.join(ch))
            elif isinstance(t, ast.Starred):
                tgt(t.value)
        for st in stmts:
            for n in ast.walk(st):
                if isinstance(n, (ast.Assign,)):
                    for t in n.targets:
                        tgt(t)
                elif isinstance(n, (ast.AugAssign, ast.AnnAssign)):
                    tgt(n.target)
                elif isinstance(n, ast.For):
                    tgt(n.target)
                elif isinstance(n, ast.Delete):
                    for t in n.targets:
                        tgt(t)
                elif isinstance(n, ast.Call) and isinstance(n.func, ast.Attribute):
                    ch = root_chain(n.func.value)
                    if ch is None:
                        continue
                    if n.func.attr in MUTATING_METHODS:
                        (names if len(ch) == 1 else locs).add('.'.join(ch))
                    else:
                        # a contracted method with a modifies clause
                        for q, c in REGISTRY.items():
                            if q.endswith('.' + n.func.attr) and c.modifies:
                                for loc in c.modifies:
                                    if loc == '$heap':
                                        if self.c.heap:
                                            names.add('$heap')
                                        continue
                                    lp = loc.split('.')
                                    full = ch + lp[1:]
                                    (names if len(full) == 1 else locs).add('.'.join(full))
                elif isinstance(n, ast.Call) and isinstance(n.func, ast.Name):
                    for q, c in REGISTRY.items():
                        if q.endswith(':' + n.func.id) and c.modifies:
                            for loc in c.modifies:
                                if loc == '$heap':
                                    if self.c.heap:
                                        names.add('$heap')
                                    continue
                                lp = loc.split('.')
                                pn = list(c.params).index(lp[0])
                                if pn < len(n.args):
                                    ch = root_chain(n.args[pn])
                                    if ch:
                                        full = ch + lp[1:]
                                        (names if len(full) == 1 else locs).add('.'.join(full))
        if self.c.heap and any('.subregion' in ast.unparse(st) for st in stmts):
            names.add('$heap')
        return names, locs

    def havoc(self, path, names, locs):
        for n in sorted(names):
            v = path.env.get(n)
            if isinstance(v, V) and v.ty != T_NONE:
                path.env[n] = S.fresh(v.ty, 'h_' + n)
            elif isinstance(v, VObj):
                path.env[n] = self.havoc_obj(v, n)
        for loc in sorted(locs):
            root = loc.split('.')[0]
            if not isinstance(path.env.get(root), VObj):
                continue
            try:
                cur = self.get_loc(path.env, loc)
            except KeyError:
                continue
            if isinstance(cur, VObj):
                self.set_loc(path.env, loc, self.havoc_obj(cur, loc))
            else:
                self.set_loc(path.env, loc, S.fresh(cur.ty, 'h_' + loc.replace('.', '_')))

    def havoc_obj(self, o, hint):
        return VObj(o.cls, {k: (self.havoc_obj(v, hint + '_' + k) if isinstance(v, VObj) else
                                (S.fresh(v.ty, 'h_' + hint.replace('.', '_') + '_' + k) if isinstance(v, V) and v.ty != T_NONE else v))
                            for k, v in o.f.items()})

    def loop_key(self, st):
        if isinstance(st, ast.For):
            tg = ', '.join(ast.unparse(e) for e in st.target.elts) if isinstance(st.target, ast.Tuple) else ast.unparse(st.target)
            k = 'for %s in %s' % (tg, ast.unparse(st.iter))
        else:
            k = 'while %s' % ast.unparse(st.test)
        return k

    def loop_spec(self, st):
        k, spec = self._loop_spec(st, self.c)
        if self.c.view_of:
            _, main = self._loop_spec(st, REGISTRY[self.c.view_of])
            if main.inv:
                import dataclasses as _dc
                spec = _dc.replace(spec, inherited=dict(main.inv), inherited_frame=list(main.frame),
                                   index=main.index if spec.index == '_i' else spec.index, done=main.done if spec.done == '_done' else spec.done)
        return k, spec

    def _loop_spec(self, st, c):
        k = self.loop_key(st)
        ordinal = self.loop_ordinals.get(id(st))
        if ordinal and ordinal > 0:
            k2 = '%s#%d' % (k, ordinal)
            if k2 in c.loops:
                return k2, c.loops[k2]
        if k in c.loops:
            if c is self.c:
                self.bound_loops.add(k)
            return k, c.loops[k]
        return k, LoopSpec()

    def check_inv(self, spec, key, env, path, phase):
        for cn, text in spec.inv.items():
            g = self.spec_formula(ast.parse(text, mode='eval').body, env, path)
            self.add_obligation(path, phase, '%s:%s' % (key, cn), g)

    def assume_inv(self, spec, env, path):
        for cn, text in spec.inherited.items():
            # invariant of the main view of this function (discharged among the main view's obligations)
            self.intensional_eq = cn in spec.inherited_frame
            try:
                f = path.assume(self.spec_formula(ast.parse(text, mode='eval').body, env, path))
            finally:
                self.intensional_eq = False
            self.labels[f.get_id()] = 'main:' + cn
        for cn, text in spec.inv.items():
            self.intensional_eq = cn in spec.frame
            try:
                f = path.assume(self.spec_formula(ast.parse(text, mode='eval').body, env, path))
            finally:
                self.intensional_eq = False
            self.labels[f.get_id()] = cn

    def assume_lemmas(self, spec, env, path):
        """Axiom instances (e.g. the closure principle of reachability) assumed at the loop head."""
        for cn, text in spec.assume.items():
            f = path.assume(self.spec_formula(ast.parse(text, mode='eval').body, env, path))
            self.labels[f.get_id()] = cn       # selectable by proof hints
            self.assumptions_used.add('axiom instance %s: %s' % (cn, text))

    def st_For(self, st, path):
        ev = self.evaluator()
        self.flush_aliases(path)
        key, spec = self.loop_spec(st)
        names, locs = self.write_set(st.body)
        names.discard(None)
        # the iterated collection
        it_node = st.iter
        mode = None
        if isinstance(it_node, ast.Call) and isinstance(it_node.func, ast.Name) and it_node.func.id in ('enumerate', 'zip', 'range'):
            qt, bind, dom = ev.domain_of(ast.comprehension(target=st.target, iter=it_node, ifs=[]), path, False)
            mode = 'index'
            if it_node.func.id == 'range':
                raise Unsupported('for over range')
            s1 = ev.ev(it_node.args[0], path, False)
            n_it = S.seq_n(s1)
            if it_node.func.id == 'zip':
                s2 = ev.ev(it_node.args[1], path, False)
                n_it = If(S.seq_n(s1) < S.seq_n(s2), S.seq_n(s1), S.seq_n(s2))
        else:
            itv = None
            yields = None
            if isinstance(it_node, ast.Call):
                fv = None
                try:
                    fv = ev.ev(it_node.func, path, False)
                except Unsupported:
                    fv = None
                view_items = None
                if isinstance(fv, tuple) and fv[0] == 'boundmethod' and fv[1].cls == 'ConcealedRegionView' and fv[2] == 'items' \
                        and not it_node.args and isinstance(st.target, ast.Tuple) and len(st.target.elts) == 2:
                    # Mapping.items() of the view: (k, view[k]) for k in iter(view); iter(view) is region_view_iterator()
                    self.assumptions_used.add('collections.abc.Mapping.items() of a ConcealedRegionView yields (k, view[k]) for the k of '
                                              'iter(view) = region_view_iterator() (library mixin, trusted)')
                    view_items = fv[1]
                    fv = ('boundmethod', fv[1], 'region_view_iterator')
                if isinstance(fv, tuple) and fv[0] == 'boundmethod':
                    q = '%s:%s.%s' % (OBJ_MODULE[fv[1].cls], fv[1].cls, fv[2])
                    c = REGISTRY.get(q)
                    if c is not None and c.yields:
                        if view_items is not None:
                            vals = {'self': view_items, 'head': S.opt_none(T_NAME)}
                        else:
                            vals, _ = self.bind_args(c, it_node, ev, path, False, fv[1])
                        cm_ = q.split(':')[0]
                        site_ = ast.unparse(it_node)
                        for cn, text in c.requires.items():
                            self.add_obligation(path, 'call-pre', '%s:%s' % (site_, cn),
                                                self.spec_formula(ast.parse(text, mode='eval').body, vals, path, cm_))
                        for exc, text in c.raises.items():
                            self.add_obligation(path, 'noraise', '%s raises %s' % (site_, exc),
                                                Not(self.spec_formula(ast.parse(text, mode='eval').body, vals, path, cm_)), exc)
                        itv = Evaluator(self, cm_).ev(ast.parse(c.yields, mode='eval').body, Path(dict(vals), path.hyps), True)
            if itv is None:
                it_once = it_node
                if not (isinstance(it_node, ast.Call) and isinstance(it_node.func, ast.Attribute) and it_node.func.attr in ('items', 'keys', 'values')):
                    # evaluate the iterated expression exactly once and give it a name
                    c0 = ev.ev(it_node, path, False)
                    if isinstance(c0, V) and c0.ty[0] == 'seq' and not z3.is_const(c0.t):
                        cst = S.fresh(c0.ty, 'iter')
                        path.hyps.append(cst.t == c0.t)
                        c0 = cst
                    if isinstance(c0, (V, VObj)):
                        path.env['__it%d' % id(st)] = c0
                        it_once = ast.Name(id='__it%d' % id(st), ctx=ast.Load())
                qt, bind, dom = ev.domain_of(ast.comprehension(target=st.target, iter=it_once, ifs=[]), path, False)
                if qt == T_INT and not (isinstance(it_node, ast.Call) and isinstance(it_node.func, ast.Attribute)):
                    c0 = ev.ev(it_once, path, False)
                    if isinstance(c0, V) and c0.ty[0] == 'seq':
                        mode = 'index'
                        n_it = S.seq_n(c0)
                        seen_seq = c0
                if mode is None:
                    mode = 'set'
                    x0 = z3.FreshConst(S.sort_of(qt), 'ix')
                    whole = V(('set', qt), z3.Lambda([x0], dom(x0)))
            else:
                mode = 'set'
                qt = itv.ty[1]
                whole = itv
                if view_items is not None:
                    ka, va = st.target.elts[0].id, st.target.elts[1].id
                    vg = view_items.f['scfg'].f['graph']
                    bind = lambda q: {ka: V(qt, q), va: S.dict_get(vg, q)}
                else:
                    tname = st.target.id
                    bind = lambda q: {tname: V(qt, q)}
                dom = lambda q: Select(whole.t, q)
        entry = Namespace(dict(path.env))
        base_env = lambda p: dict(p.env, entry=entry, old=self.old_ns)
        results = []
        seen_name = spec.index + '_seen'
        if mode != 'index' or 'seen_seq' not in locals():
            seen_seq = None
        seen_ghost = seen_seq is not None and seen_seq.ty[1][0] in ('name', 'int')

        def seen_at(i_term, p_):
            """ghost: the set of elements at positions < i (a named constant with its definition)."""
            sc = z3.FreshConst(S.sort_of(('set', seen_seq.ty[1])), 'seen')
            y = z3.FreshConst(S.sort_of(seen_seq.ty[1]), 'sy')
            m = z3.FreshInt('sm')
            p_.hyps.append(ForAll([y], Select(sc, y) == Exists([m], And(0 <= m, m < i_term, Select(S.seq_arr(seen_seq), m) == y)),
                                  patterns=[Select(sc, y)]))
            p_.hyps.append(S.forall_p([m], Implies(And(0 <= m, m < i_term), Select(sc, Select(S.seq_arr(seen_seq), m))),
                                      [Select(S.seq_arr(seen_seq), m)]))
            return V(('set', seen_seq.ty[1]), sc)
        # iterated collection must not be modified by the body (termination + snapshot semantics)
        it_roots = {n.id for n in ast.walk(it_node) if isinstance(n, ast.Name)}
        snapshot = isinstance(it_node, ast.Call) and isinstance(it_node.func, ast.Name) and it_node.func.id in ('sorted', 'list', 'tuple')
        inplace = None
        if it_roots & names and not snapshot:      # sorted(...)/list(...)/tuple(...) build a new object before the loop starts
            # allowed: `for i, x in enumerate(L)` whose body only stores elements `L[e] = v` (the length cannot change; the
            # element of iteration i is read from the current list)
            ok_ = (mode == 'index' and isinstance(it_node, ast.Call) and it_node.func.id == 'enumerate' and isinstance(it_node.args[0], ast.Name))
            if ok_:
                ln = it_node.args[0].id
                for n_ in ast.walk(ast.Module(body=st.body, type_ignores=[])):
                    if isinstance(n_, ast.Call) and isinstance(n_.func, ast.Attribute) and isinstance(n_.func.value, ast.Name) \
                            and n_.func.value.id == ln and n_.func.attr in MUTATING_METHODS:
                        ok_ = False
                    if isinstance(n_, (ast.Assign, ast.AugAssign)):
                        for t_ in (n_.targets if isinstance(n_, ast.Assign) else [n_.target]):
                            if isinstance(t_, ast.Name) and t_.id == ln:
                                ok_ = False
                    if isinstance(n_, ast.Delete):
                        ok_ = False
            if not ok_:
                raise Unsupported('loop body modifies the iterated collection')
            inplace = ln
        # ---- inv-init
        g0 = IntVal(0) if mode == 'index' else S.set_empty(qt).t
        gname = spec.index if mode == 'index' else spec.done
        gty = T_INT if mode == 'index' else ('set', qt)
        env0 = base_env(path)
        env0[gname] = V(gty, g0)
        if seen_ghost:
            env0[seen_name] = S.set_empty(seen_seq.ty[1])
        self.check_inv(spec, key, env0, path, 'inv-init')
        # ---- arbitrary iteration
        p = path.copy()
        self.havoc(p, names, locs)
        if mode == 'index':
            g = z3.FreshInt(gname.strip('_') or 'i')
            p.assume(And(0 <= g, g < n_it))
            q = g
        else:
            g = z3.FreshConst(S.sort_of(gty), 'done')
            q = z3.FreshConst(S.sort_of(qt), 'elem')
            xs = z3.FreshConst(S.sort_of(qt), 'dx')
            p.assume(ForAll([xs], Implies(Select(g, xs), dom(xs))))
            p.assume(And(dom(q), Not(Select(g, q))))
        envh = base_env(p)
        envh[gname] = V(gty, g)
        if seen_ghost:
            seen_h = seen_at(g, p)
            envh[seen_name] = seen_h
        self.assume_inv(spec, envh, p)
        self.assume_lemmas(spec, envh, p)
        if inplace is not None:
            cur_ = p.env[inplace]
            p.assume(S.seq_n(cur_) == n_it)          # element stores keep the length (checked again at the end of the body)
            a_, b_ = st.target.elts
            p.env.update({a_.id: V(T_INT, q), b_.id: S.seq_get(cur_, q)})
        else:
            p.env.update(bind(q))
        p.env[gname] = V(gty, g)
        if seen_ghost:
            p.env[seen_name] = seen_h
        # `it0.<var>`: the value at the start of the current iteration (usable in cuts inside the body and at its end)
        it_ns = Namespace(dict(p.env))
        p.env['it0'] = it_ns
        body_env = lambda p_: dict(p_.env, entry=entry, old=self.old_ns, it0=it_ns)
        outs = self.run(st.body, p)
        end_cuts = self.c.cuts.get('end:' + key)
        if end_cuts:
            self.bound_cuts.add('end:' + key)
        for p2, o in outs:
            if o in (None, 'continue'):
                # lemmas at the end of the body (proved, then assumed), before the invariant is re-established
                for cn, text in (end_cuts or {}).items():
                    g_ = self.spec_formula(ast.parse(text, mode='eval').body, body_env(p2), p2)
                    if text.strip().startswith('fact('):
                        self.labels[p2.assume(g_).get_id()] = cn
                        continue
                    self.add_obligation(p2, 'cut', 'end:%s:%s' % (key[:40], cn), g_)
                env2 = base_env(p2)
                env2[gname] = V(gty, g + 1 if mode == 'index' else Store(g, q, True))
                if seen_ghost:
                    env2[seen_name] = V(seen_h.ty, Store(seen_h.t, Select(S.seq_arr(seen_seq), g), True))
                if inplace is not None:
                    self.add_obligation(p2, 'inv-step', '%s:length-kept' % key, S.seq_n(p2.env[inplace]) == n_it)
                self.check_inv(spec, key, env2, p2, 'inv-step')
            elif o == 'break':
                results.append((p2, None))
            else:
                results.append((p2, o))
        # ---- after the loop
        p3 = path.copy()
        self.havoc(p3, names, locs)
        env3 = base_env(p3)
        env3[gname] = V(gty, n_it if mode == 'index' else whole.t)
        if inplace is not None:
            p3.assume(S.seq_n(p3.env[inplace]) == n_it)
        if seen_ghost:
            env3[seen_name] = seen_at(n_it, p3)
        self.assume_inv(spec, env3, p3)
        self.assume_lemmas(spec, env3, p3)
        # targets assigned by the loop afterwards: the last element (plain sequence, name target), else unknown
        for tn in [n.id for n in ast.walk(st.target) if isinstance(n, ast.Name)]:
            if mode == 'index' and seen_seq is not None and isinstance(st.target, ast.Name):
                last = S.seq_get(seen_seq, n_it - 1)
                used_later = any(isinstance(x, ast.Name) and x.id == tn and isinstance(x.ctx, ast.Load)
                                 and getattr(x, 'lineno', 0) > getattr(st, 'end_lineno', 10 ** 9) for x in ast.walk(self.fn))
                if tn in path.env and isinstance(path.env[tn], V) and path.env[tn].ty == last.ty:
                    p3.env[tn] = V(last.ty, If(n_it > 0, last.t, path.env[tn].t))
                else:
                    if used_later:
                        self.add_obligation(p3, 'noraise', 'loop variable %s read after a possibly empty loop' % tn, n_it > 0, 'UnboundLocalError')
                    p3.env[tn] = last
            elif tn in p3.env and isinstance(p3.env[tn], V) and p3.env[tn].ty != T_NONE:
                p3.env[tn] = S.fresh(p3.env[tn].ty, 'after_' + tn)
        if st.orelse:
            results += self.run(st.orelse, p3)
        else:
            results.append((p3, None))
        return results

    def st_While(self, st, path):
        ev = self.evaluator()
        self.flush_aliases(path)
        key, spec = self.loop_spec(st)
        names, locs = self.write_set(st.body)
        path.env['_iter'] = S.vint(0)
        entry = Namespace(dict(path.env))
        base_env = lambda p: dict(p.env, entry=entry, old=self.old_ns)
        results = []
        self.check_inv(spec, key, base_env(path), path, 'inv-init')
        p = path.copy()
        self.havoc(p, names, locs)
        # ghost `_iter`: number of completed iterations
        itc = z3.FreshInt('iter')
        p.assume(itc >= 0)
        p.env['_iter'] = S.vint(itc)
        self.assume_inv(spec, base_env(p), p)
        self.assume_lemmas(spec, base_env(p), p)
        c = ev.ev_bool(st.test, p, False)
        pb = p.copy()
        pb.assume(c)
        # `it0.<var>`: the value at the start of the current iteration (usable in cuts inside the body)
        it_ns = Namespace(dict(pb.env))
        pb.env['it0'] = it_ns
        base_env = lambda p_: dict(p_.env, entry=entry, old=self.old_ns, it0=it_ns)
        measure0 = None
        if spec.decreases:
            measure0 = self.spec_eval(spec.decreases, base_env(pb), pb)
        outs = self.run(st.body, pb)
        end_cuts = self.c.cuts.get('end:' + key)
        if end_cuts:
            self.bound_cuts.add('end:' + key)
        for p2, o in outs:
            if o in (None, 'continue'):
                p2.env['_iter'] = S.vint(itc + 1)
                # lemmas at the end of the body (proved, then assumed), before the invariant is re-established
                for cn, text in (end_cuts or {}).items():
                    g = self.spec_formula(ast.parse(text, mode='eval').body, base_env(p2), p2)
                    if text.strip().startswith('fact('):
                        self.labels[p2.assume(g).get_id()] = cn
                        continue
                    self.add_obligation(p2, 'cut', 'end:%s:%s' % (key[:40], cn), g)
                self.check_inv(spec, key, base_env(p2), p2, 'inv-step')
                if measure0 is not None:
                    m1 = self.spec_eval(spec.decreases, base_env(p2), p2)
                    self.add_obligation(p2, 'decreases', key, And(m1.t < measure0.t, measure0.t >= 0))
            elif o == 'break':
                results.append((p2, None))
            else:
                results.append((p2, o))
        if measure0 is None:
            self.unproved_termination.append(key)
        pe = p.copy()
        pe.assume(Not(c))
        if not z3.is_true(z3.simplify(c)):
            if st.orelse:
                results += self.run(st.orelse, pe)
            else:
                results.append((pe, None))
        return results

    # ======================================================================
    # top level: one function against its contract
    # ======================================================================
    def symbolic_param(self, name, tytext):
        ty = S.parse_type(tytext)
        if ty[0] == 'obj':
            return VObj(ty[1], {k: self.symbolic_param(name + '_' + k, t) for k, t in OBJ_CLASSES[ty[1]].items()})
        return S.register_wf(V(ty, z3.Const('in!' + name, S.sort_of(ty))))

    def generate(self):
        """Symbolically execute the function; returns the obligation list."""
        if self.fn is None:
            raise Unsupported('function not found in the source: ' + self.c.qual)
        S.reset_wf()
        c = self.c
        # loop ordinals (for duplicate loop headers)
        self.loop_ordinals = {}
        seen = {}
        for n in ast.walk(self.fn):
            if isinstance(n, (ast.For, ast.While)):
                k = self.loop_key(n)
                self.loop_ordinals[id(n)] = seen.get(k, 0)
                seen[k] = seen.get(k, 0) + 1
        self.bound_loops = set()
        # callees whose preconditions speak about the heap: heap-mode functions and functions with a hierarchy view
        self.heap_callees = sorted({q.split(':')[1].split('.')[-1].split('#')[0] + '(' for q, c_ in REGISTRY.items() if c_.heap})
        if c.view_of:
            main = REGISTRY[c.view_of]
            missing = [k_ for k_, t_ in main.requires.items() if c.requires.get(k_) != t_]
            if missing or dict(main.known) != dict(c.known) or list(main.params) != list(c.params):
                raise Unsupported('view %s does not repeat the preconditions of %s: %s' % (c.qual, c.view_of, missing))
        self.prefix_of = {}
        # locals on which a mutating method is called somewhere in the function (alias model, see record_alias)
        self.mutated_locals = {n.func.value.id for n in ast.walk(self.fn) if isinstance(n, ast.Call) and isinstance(n.func, ast.Attribute)
                               and n.func.attr in MUTATING_METHODS and isinstance(n.func.value, ast.Name)}
        self.seen_loop_keys = set()
        self.bound_cuts = set()
        self.unproved_termination = []
        self.canary_points = []
        self.pruned = []
        # parameter check against the real signature
        real = [a.arg for a in self.fn.args.args] + ([self.fn.args.vararg.arg] if self.fn.args.vararg else [])
        if real != list(c.params):
            raise Unsupported('signature changed: %r vs contract %r' % (real, list(c.params)))
        env = {n: self.symbolic_param(n, t) for n, t in c.params.items()}
        if c.heap:
            env['$heap'] = V(S.T_HEAP, z3.Const('in!heap', S.sort_of(S.T_HEAP)))
        self.pre_env = {k: (v.copy() if isinstance(v, VObj) else v) for k, v in env.items()}
        self.old_ns = Namespace(self.pre_env)
        if c.yields:
            env['_yielded'] = S.set_empty(S.parse_type(c.returns)[1])
        path = Path(env, [])
        for cn, text in c.requires.items():
            f = path.assume(self.spec_bool(text, self.pre_env, path))
            # kept by every proof hint unless the hint lists '-requires:<clause>'
            self.labels.setdefault(f.get_id(), 'requires:' + cn)
        for kid, text in c.known.items():
            path.assume(Not(self.spec_bool(text, self.pre_env, path)))
        for cn, text in c.lemmas.items():
            path.assume(self.spec_bool(text, self.pre_env, path))
        self.requires_hyps = list(path.hyps)
        outs = self.run(self.fn.body, path)
        self.stats['paths'] = len(outs)
        rty = S.parse_type(c.returns) if c.returns else None
        for p, o in outs:
            if o is None:
                o = ('return', NONE)
            if o[0] == 'raise':
                exc = o[1]
                if exc in c.raises:
                    g = self.spec_bool(c.raises[exc], self.pre_env, p)
                    self.add_obligation(p, 'raises', exc, g)
                else:
                    self.add_obligation(p, 'noraise', 'raise ' + exc, BoolVal(False))
                continue
            if o in ('break', 'continue'):
                raise Unsupported('break/continue outside loop')
            res = o[1]
            if c.yields:
                res = p.env['_yielded']
            fenv = dict(p.env)
            for n in c.params:
                fenv.setdefault(n, self.pre_env[n])
            fenv['old'] = self.old_ns
            fenv['result'] = res
            for cn, text in c.ensures.items():
                node = ast.parse(text, mode='eval').body
                for i, conj in enumerate(self.conjuncts(node)):
                    g = self.spec_formula(conj, fenv, p)
                    self.add_obligation(p, 'post', cn if i == 0 and len(self.conjuncts(node)) == 1 else '%s.%d' % (cn, i), g)
            if c.heap and '$heap' not in c.modifies:
                self.add_obligation(p, 'frame', '$heap', p.env['$heap'].t == self.pre_env['$heap'].t)
            # frame: every tracked location of an object parameter not listed in `modifies` is unchanged
            for n, t in c.params.items():
                init = self.pre_env[n]
                fin = p.env.get(n, init)
                self.frame(p, n, init, fin)
        for k in c.cuts:
            if k not in self.bound_cuts:
                raise Unsupported('contract names a cut point that no longer exists: ' + k)
        # unbound loop specs -> the sidecar no longer matches the code
        for k in c.loops:
            base = k.split('#')[0]
            if base not in seen and base not in self.seen_loop_keys:
                raise Unsupported('contract names a loop that no longer exists: ' + k)
        return self.obligations

    def conjuncts(self, node):
        if isinstance(node, ast.BoolOp) and isinstance(node.op, ast.And):
            out = []
            for v in node.values:
                out += self.conjuncts(v)
            return out
        return [node]

    def frame(self, p, loc, init, fin):
        if isinstance(init, VObj):
            if not isinstance(fin, VObj):
                raise Unsupported('parameter %s rebound' % loc)
            for k in init.f:
                self.frame(p, loc + '.' + k, init.f[k], fin.f[k])
            return
        if any(loc == m or loc.startswith(m + '.') for m in self.c.modifies):
            return
        if not isinstance(init, V) or init.ty == T_NONE:
            return
        if init.ty[0] in ('int', 'bool', 'name', 'cls', 'block', 'pair', 'opt', 'inst'):
            return   # immutable values: rebinding the local is not observable
        if fin is init or (isinstance(fin, V) and fin.t.eq(init.t)):
            self.add_obligation(p, 'frame', loc, BoolVal(True))
        else:
            self.add_obligation(p, 'frame', loc, S.val_eq(fin, init))


def background(engine):
    return S.base_axioms() + engine.axioms
