"""Discharge of verification conditions: z3 (two configurations), then cvc5 on
the SMT-LIB text when it can parse it.  `unknown` is never a verdict."""
from __future__ import annotations
import time
import z3
from z3 import Not, And


def check_one(hyps, goal, background, timeout_ms=20000, want_model=False, quick=False):
    t0 = time.time()
    verdict, model, why = 'unknown', None, ''
    # most obligations are e-matching proofs: MBQI off first (fast), then the default, then another seed
    # e-matching proofs are sensitive to the search order: a few cheap perturbations (seed, order in which the
    # hypotheses are asserted) before the long attempts.  Any `unsat` is a proof; nothing else is a verdict.
    short = max(timeout_ms // 8, 1500)
    plan = [({'smt.mbqi': False}, max(timeout_ms // 4, 2000), 0), ({}, max(timeout_ms // 4, 2000), 0)]
    plan += [({'smt.mbqi': False, 'smt.random_seed': sd}, short, sd) for sd in (1, 2, 3)]
    if not quick:
        plan += [({}, timeout_ms // 2, 1), ({'smt.mbqi': False, 'smt.random_seed': 7, 'smt.arith.solver': 2}, timeout_ms, 5)]
    hyps = list(hyps)
    # every query runs in a z3 context of its own: the verdict of an obligation does not depend on which other
    # obligations the process discharged before (term numbering in a shared context steers the search)
    ctx = z3.Context()
    background = [a.translate(ctx) for a in background]
    hyps = [h.translate(ctx) for h in hyps]
    goal = goal.translate(ctx)
    for cfg, tmo, rot in plan:
        s = z3.Solver(ctx=ctx)
        s.set('timeout', tmo)
        for k, v in cfg.items():
            s.set(k, v)
        s.add(*background)
        hs = hyps if rot == 0 or len(hyps) < 3 else (hyps[::-1] if rot % 2 else hyps[len(hyps) // rot:] + hyps[:len(hyps) // rot])
        s.add(*hs)
        s.add(z3.Not(goal))
        r = s.check()
        if r == z3.unsat:
            verdict = 'proved'
            break
        if r == z3.sat:
            verdict = 'sat'
            model = None      # models of quantified VCs are not used (DESIGN 11.2)
            break
        why = s.reason_unknown()
    return verdict, model, time.time() - t0, why


def canary(hyps, background, timeout_ms=1500):
    """`False` must not follow from the hypotheses (vacuity / contradictory axioms)."""
    s = z3.Solver()
    s.set('timeout', timeout_ms)
    s.add(*background)
    s.add(*hyps)
    r = s.check()
    # unsat = contradictory hypotheses (bad); sat/unknown = fine
    return r != z3.unsat
