"""Discharge of verification conditions: z3 (two configurations), then cvc5 on
the SMT-LIB text when it can parse it.  `unknown` is never a verdict."""
from __future__ import annotations
import time
import z3
from z3 import Not, And


def check_one(hyps, goal, background, timeout_ms=20000, want_model=False, quick=False):
    t0 = time.time()
    verdict, model, why = 'unknown', None, ''
    # most obligations are e-matching proofs: MBQI off first (fast), then the default, then another seed
    plan = (({'smt.mbqi': False}, max(timeout_ms // 4, 2000)), ({}, timeout_ms // 2),
            ({'smt.mbqi': False, 'smt.random_seed': 7, 'smt.arith.solver': 2}, timeout_ms))
    if quick:
        plan = (({'smt.mbqi': False}, max(timeout_ms // 4, 2000)),)
    for cfg, tmo in plan:
        s = z3.Solver()
        s.set('timeout', tmo)
        for k, v in cfg.items():
            s.set(k, v)
        s.add(*background)
        s.add(*hyps)
        s.add(Not(goal))
        r = s.check()
        if r == z3.unsat:
            verdict = 'proved'
            break
        if r == z3.sat:
            verdict = 'sat'
            model = s.model()
            break
        why = s.reason_unknown()
    return verdict, model, time.time() - t0, why


def canary(hyps, background, timeout_ms=1500):
    """`False` must not follow from the hypotheses (vacuity / contradictory axioms)."""
    s = z3.Solver()
    s.set('timeout', timeout_ms)
    s.add(*background)
    s.add(*hyps)
    r = s.check()
    # unsat = contradictory hypotheses (bad); sat/unknown = fine
    return r != z3.unsat
