"""Proof-engineering helper: for an obligation, greedily find a small set of labelled hypotheses
(invariant clauses, cuts, callee postconditions) that still proves it.  usage: minhint <func> <obligation substring>"""
import sys, time, z3, collections
import contracts  # noqa
from pyvc.engine import Engine, background
from pyvc.contract import REGISTRY

qual = [q for q in REGISTRY if sys.argv[1] in q][0]
pat = sys.argv[2]
to = int(sys.argv[3]) if len(sys.argv) > 3 else 6000
e = Engine(REGISTRY[qual])
obls = e.generate()
bg = background(e)


def ok(hyps, goal, t=to):
    s = z3.Solver()
    s.set('timeout', t)
    s.set('smt.mbqi', False)
    s.add(*bg)
    s.add(*hyps)
    s.add(z3.Not(goal))
    return s.check() == z3.unsat


for o in [o for o in obls if pat in o.name]:
    lab = lambda h: e.labels.get(h.get_id())
    names = sorted({lab(h) for h in o.hyps if lab(h) is not None})
    t0 = time.time()
    full = ok(o.hyps, o.goal, 30000)
    print(o.name, 'hyps=%d labelled clause names=%d full=%s %.1fs' % (len(o.hyps), len(names), full, time.time() - t0))
    keep = list(names)
    if not full:
        # try: unlabelled + each single label set growing
        keep = []
        for n in names:
            pass
    for n in list(keep):
        trial = [k for k in keep if k != n]
        hy = [h for h in o.hyps if lab(h) is None or lab(h) in trial]
        if ok(hy, o.goal):
            keep = trial
    hy = [h for h in o.hyps if lab(h) is None or lab(h) in keep]
    t0 = time.time()
    r = ok(hy, o.goal, 30000)
    print('   minimal labelled set:', keep, 'proves=%s in %.1fs' % (r, time.time() - t0))
