"""Mechanical extraction of the verified text from the repository (every run).

Reads the module files under $VERIF_REPO (default /repo), finds functions by
qualified name, builds the class lattice (ClassDef + bases + dataclass fields)
and resolves module-level names (constants, imported classes/functions).
Nothing here is copied by hand; the SHA-256 of each extracted function's source
segment goes into the evidence.
"""
from __future__ import annotations
import ast
import hashlib
import os

REPO = os.environ.get('VERIF_REPO', '/repo')


class Module:
    def __init__(self, modname):
        self.name = modname
        self.path = os.path.join(REPO, *modname.split('.')) + '.py'
        with open(self.path) as fh:
            self.text = fh.read()
        self.tree = ast.parse(self.text)
        self.globals = {}   # name -> ('const', node) | ('class', mod, name) | ('func', mod, name) | ('module', modname)
        self.classes = {}   # name -> ClassDef
        self.funcs = {}     # name -> FunctionDef
        for st in self.tree.body:
            if isinstance(st, ast.ClassDef):
                self.classes[st.name] = st
                self.globals[st.name] = ('class', modname, st.name)
            elif isinstance(st, ast.FunctionDef):
                self.funcs[st.name] = st
                self.globals[st.name] = ('func', modname, st.name)
            elif isinstance(st, ast.Assign) and len(st.targets) == 1 and isinstance(st.targets[0], ast.Name):
                self.globals[st.targets[0].id] = ('const', modname, st.value)
            elif isinstance(st, ast.ImportFrom) and st.module and st.module.startswith('numba_scfg'):
                for a in st.names:
                    self.globals[a.asname or a.name] = ('import', st.module, a.name)
            elif isinstance(st, ast.Import):
                for a in st.names:
                    self.globals[a.asname or a.name] = ('extmodule', a.name)
            elif isinstance(st, ast.ImportFrom):
                for a in st.names:
                    self.globals[a.asname or a.name] = ('ext', st.module, a.name)


_modules: dict = {}


def module(modname) -> Module:
    if modname not in _modules:
        _modules[modname] = Module(modname)
    return _modules[modname]


def reset():
    _modules.clear()
    _class_ids.clear()


def resolve_global(modname, name, depth=0):
    """Follow imports until a definition is found."""
    m = module(modname)
    g = m.globals.get(name)
    if g is None:
        return None
    if g[0] == 'import':
        # from X import name : name may be a submodule or a global of X
        sub = g[1] + '.' + g[2]
        if os.path.exists(os.path.join(REPO, *sub.split('.')) + '.py'):
            return ('module', sub)
        if depth > 8:
            return None
        return resolve_global(g[1], g[2], depth + 1)
    return g


def find_function(qual):
    """'pkg.mod:Class.method' or 'pkg.mod:func' -> (Module, FunctionDef, ClassDef|None)."""
    modname, path = qual.split('#')[0].split(':')       # 'mod:Class.func#view' names a second contract of the same function
    m = module(modname)
    parts = path.split('.')
    if len(parts) == 1:
        fn = m.funcs.get(parts[0])
        return m, fn, None
    cls = m.classes.get(parts[0])
    if cls is None:
        return m, None, None
    for st in cls.body:
        if isinstance(st, ast.FunctionDef) and st.name == parts[1]:
            return m, st, cls
    return m, None, cls


def segment(m: Module, node) -> str:
    return ast.get_source_segment(m.text, node) or ''


def sha(m: Module, node) -> str:
    return hashlib.sha256(segment(m, node).encode()).hexdigest()


# ---------------------------------------------------------------- class lattice
BB_MOD = 'numba_scfg.core.datastructures.basic_block'
_class_ids: dict = {}


def block_classes():
    """name -> (id, [base names], [own dataclass fields]) for basic_block.py, in source order."""
    if _class_ids:
        return _class_ids
    m = module(BB_MOD)
    i = 0
    for name, cd in m.classes.items():
        bases = [b.id for b in cd.bases if isinstance(b, ast.Name)]
        fields = [st.target.id for st in cd.body if isinstance(st, ast.AnnAssign) and isinstance(st.target, ast.Name)]
        props = [st.name for st in cd.body if isinstance(st, ast.FunctionDef)
                 and any(isinstance(d, ast.Name) and d.id == 'property' for d in st.decorator_list)]
        methods = [st.name for st in cd.body if isinstance(st, ast.FunctionDef)]
        _class_ids[name] = {'id': i, 'bases': bases, 'fields': fields, 'props': props, 'methods': methods}
        i += 1
    return _class_ids


def subclasses(name):
    cs = block_classes()
    out = set()

    def is_sub(c):
        if c == name:
            return True
        return any(is_sub(b) for b in cs[c]['bases'] if b in cs)
    for c in cs:
        if is_sub(c):
            out.add(c)
    return out


def mro(name):
    cs = block_classes()
    out = [name]
    for b in cs[name]['bases']:
        if b in cs:
            for x in mro(b):
                if x not in out:
                    out.append(x)
    return out


def all_fields(name):
    out = []
    for c in reversed(mro(name)):
        for f in block_classes()[c]['fields']:
            if f not in out:
                out.append(f)
    return out


def method_owner(cls, meth):
    """Class in the MRO of `cls` that defines `meth`."""
    for c in mro(cls):
        if meth in block_classes()[c]['methods']:
            return c
    return None
