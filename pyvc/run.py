"""Generate and discharge the obligations of one or more contracted functions."""
from __future__ import annotations
import sys
import time
import json
import traceback
import z3
from . import smt as S
from . import source as SRC
from .engine import Engine, Unsupported, background
from .discharge import check_one, canary
from .contract import REGISTRY


def symbols(f, cache={}):
    k = f.get_id()
    if k in cache:
        return cache[k]
    out, seen, stack = set(), set(), [f]
    while stack:
        x = stack.pop()
        if x.get_id() in seen:
            continue
        seen.add(x.get_id())
        if z3.is_quantifier(x):
            stack.append(x.body())
        elif z3.is_app(x):
            d = x.decl()
            if d.kind() == z3.Z3_OP_UNINTERPRETED:
                out.add(d.name())
            stack.extend(x.children())
    cache[k] = out
    return out


def relevant(hyps, goal, depth=2):
    """Syntactic relevance filter (dropping hypotheses is always sound): hypotheses reachable from the goal
    through shared uncommon symbols, `depth` rounds."""
    hs = [(h, symbols(h)) for h in hyps]
    count = {}
    for _, ss in hs:
        for s_ in ss:
            count[s_] = count.get(s_, 0) + 1
    common = {s_ for s_, c in count.items() if c > max(6, 0.3 * len(hs))}
    want = set(symbols(goal))
    keep = set()
    for _ in range(depth):
        new = set()
        for i, (h, ss) in enumerate(hs):
            if i not in keep and (ss & want) - common:
                keep.add(i)
                new |= ss
        want |= (new - common)
    return [h for i, (h, _) in enumerate(hs) if i in keep]


def keep_hyp(label, keep, clause):
    """proof hints: unlabelled hypotheses stay; labelled ones (invariant clauses, cut facts, callee postconditions, axiom
    instances) stay when named; preconditions ('requires:<clause>') stay unless the hint lists '-requires:<clause>'"""
    if label is None or label in keep or label == clause:
        return True
    if label.startswith('requires:') or label.startswith('fact:'):
        return ('-' + label) not in keep
    return False


def verify(qual, timeout_ms=20000, verbose=False, part=None):
    """part=(k, n): discharge only the obligation groups with index % n == k (parallel slices)"""
    c = REGISTRY[qual]
    out = {'qual': qual, 'obligations': [], 'status': 'ok', 'assumptions': [], 'sha256': None}
    t0 = time.time()
    try:
        eng = Engine(c)
        if eng.fn is not None:
            out['sha256'] = SRC.sha(eng.mod, eng.fn)
        obls = eng.generate()
    except Unsupported as e:
        out['status'] = 'unsupported'
        out['reason'] = str(e)
        return out
    except (AttributeError, TypeError, KeyError, IndexError, AssertionError, ValueError, NotImplementedError, z3.Z3Exception) as e:
        # almost always a construct outside the supported subset reaching an unprepared code path of the
        # generator: undecided (never a verdict); the traceback is kept in the evidence
        out['status'] = 'unsupported'
        out['reason'] = 'generator could not handle the function (%s: %s)' % (type(e).__name__, str(e)[:120])
        out['traceback'] = traceback.format_exc()[-1200:]
        return out
    except Exception as e:   # tool error: never a verdict
        out['status'] = 'error'
        out['reason'] = traceback.format_exc()
        return out
    bg0 = bg = background(eng)
    groups = {}
    for o in obls:
        groups.setdefault(o.name, []).append(o)
    for gi, (name, os_) in enumerate(groups.items()):
        if part is not None and gi % part[1] != part[0]:
            continue
        verdict, secs, why, model = 'proved', 0.0, '', None
        for o in os_:
            bg = bg0 + S.card_mono_axioms() if o.info.get('clause') in c.card_mono else bg0
            if z3.is_true(z3.simplify(o.goal)):
                continue
            v, dt = 'unknown', 0.0
            cl = o.info.get('clause')
            keep = c.hints.get('%s:%s' % (o.kind, cl))      # most specific: '<kind>:<clause>' (inv-init / inv-step / post / cut ...)
            if keep is None:
                keep = c.hints.get(cl)
            if keep is None:
                keep = c.hints.get(o.kind + ':*')
            if keep is None:
                keep = c.hints.get('*')
            if keep is not None:
                # proof hint: first try with the labelled hypotheses restricted to the named clauses
                # (dropping hypotheses is always sound)
                hy = [h for h in o.hyps if keep_hyp(eng.labels.get(h.get_id()), keep, o.info.get('clause'))]
                v, m, dt, w = check_one(hy, o.goal, bg, min(timeout_ms, 8000))
                secs += dt
                if v == 'sat':
                    v = 'unknown'   # a model of a weakened VC means nothing
            if v != 'proved':
                # quick attempt with everything (most obligations need < 1 s)
                v, m, dt, w = check_one(o.hyps, o.goal, bg, 12000, quick=True)
                secs += dt
            if v != 'proved' and len(o.hyps) > 24:
                hy = relevant(o.hyps, o.goal)
                if len(hy) < len(o.hyps):
                    v, m, dt, w = check_one(hy, o.goal, bg, min(timeout_ms, 6000))
                    secs += dt
                    if v == 'sat':
                        v = 'unknown'
            if v != 'proved':
                v, m, dt, w = check_one(o.hyps, o.goal, bg, timeout_ms)
                secs += dt
            if v != 'proved':
                verdict, why, model = v, w, m
                if v == 'sat':
                    out.setdefault('models', {})[name] = model_inputs(eng, m)
                break
        out['obligations'].append({'name': name, 'verdict': verdict, 'secs': round(secs, 3), 'parts': len(os_), 'why': why,
                                   'kind': os_[0].kind})
        if verbose:
            print('  %-90s %-8s %6.2fs %s' % (name, verdict, secs, why))
    # vacuity: the preconditions (and axioms) are consistent
    ok = canary(eng.requires_hyps, bg)
    # ... and stay consistent after every assumption made on the way (allocation of a new object)
    out['canary_points'] = []
    for label, hyps in getattr(eng, 'canary_points', []):
        okp = canary(hyps, bg, 4000)
        out['canary_points'].append({'at': label, 'consistent': okp})
        ok = ok and okp
    out['canary_pre'] = ok
    out['assumptions'] = sorted(eng.assumptions_used)
    out['unproved_termination'] = list(eng.unproved_termination)
    out['paths'] = eng.stats['paths']
    out['wall'] = round(time.time() - t0, 2)
    return out


def model_inputs(eng, model):
    """Evaluate the parameters in a counter-model (concretisation happens in pyvc.concretise)."""
    try:
        from .concretise import concretise_inputs
        return concretise_inputs(eng, model)
    except Exception as e:
        return {'error': repr(e)}


if __name__ == '__main__':
    import contracts  # noqa
    pats = sys.argv[1:]
    for q in REGISTRY:
        if not pats or any(p in q for p in pats):
            print(q)
            r = verify(q, verbose=True)
            if r['status'] != 'ok':
                print('   ', r['status'], r.get('reason'))
            else:
                print('    canary_pre=%s paths=%s wall=%ss' % (r['canary_pre'], r['paths'], r['wall']))
