"""Generate and discharge the obligations of one or more contracted functions."""
from __future__ import annotations
import sys
import time
import json
import traceback
import z3
from . import smt as S
from . import source as SRC
from .engine import Engine, Unsupported, background
from .discharge import check_one, canary
from .contract import REGISTRY


def verify(qual, timeout_ms=20000, verbose=False):
    c = REGISTRY[qual]
    out = {'qual': qual, 'obligations': [], 'status': 'ok', 'assumptions': [], 'sha256': None}
    t0 = time.time()
    try:
        eng = Engine(c)
        if eng.fn is not None:
            out['sha256'] = SRC.sha(eng.mod, eng.fn)
        obls = eng.generate()
    except Unsupported as e:
        out['status'] = 'unsupported'
        out['reason'] = str(e)
        return out
    except (AttributeError, TypeError, KeyError, IndexError, AssertionError, ValueError, NotImplementedError, z3.Z3Exception) as e:
        # almost always a construct outside the supported subset reaching an unprepared code path of the
        # generator: undecided (never a verdict); the traceback is kept in the evidence
        out['status'] = 'unsupported'
        out['reason'] = 'generator could not handle the function (%s: %s)' % (type(e).__name__, str(e)[:120])
        out['traceback'] = traceback.format_exc()[-1200:]
        return out
    except Exception as e:   # tool error: never a verdict
        out['status'] = 'error'
        out['reason'] = traceback.format_exc()
        return out
    bg = background(eng)
    groups = {}
    for o in obls:
        groups.setdefault(o.name, []).append(o)
    for name, os_ in groups.items():
        verdict, secs, why, model = 'proved', 0.0, '', None
        for o in os_:
            if z3.is_true(z3.simplify(o.goal)):
                continue
            v, dt = 'unknown', 0.0
            keep = c.hints.get(o.info.get('clause')) or c.hints.get('*')
            if keep is not None:
                # proof hint: first try with the labelled hypotheses restricted to the named clauses
                # (dropping hypotheses is always sound)
                hy = [h for h in o.hyps if eng.labels.get(h.get_id()) is None or eng.labels[h.get_id()] in keep
                      or eng.labels[h.get_id()] == o.info.get('clause')]
                v, m, dt, w = check_one(hy, o.goal, bg, min(timeout_ms, 8000))
                secs += dt
                if v == 'sat':
                    v = 'unknown'   # a model of a weakened VC means nothing
            if v != 'proved':
                v, m, dt, w = check_one(o.hyps, o.goal, bg, timeout_ms)
                secs += dt
            if v != 'proved':
                verdict, why, model = v, w, m
                if v == 'sat':
                    out.setdefault('models', {})[name] = model_inputs(eng, m)
                break
        out['obligations'].append({'name': name, 'verdict': verdict, 'secs': round(secs, 3), 'parts': len(os_), 'why': why,
                                   'kind': os_[0].kind})
        if verbose:
            print('  %-90s %-8s %6.2fs %s' % (name, verdict, secs, why))
    # vacuity: the preconditions (and axioms) are consistent
    ok = canary(eng.requires_hyps, bg)
    out['canary_pre'] = ok
    out['assumptions'] = sorted(eng.assumptions_used)
    out['unproved_termination'] = list(eng.unproved_termination)
    out['paths'] = eng.stats['paths']
    out['wall'] = round(time.time() - t0, 2)
    return out


def model_inputs(eng, model):
    """Evaluate the parameters in a counter-model (concretisation happens in pyvc.concretise)."""
    try:
        from .concretise import concretise_inputs
        return concretise_inputs(eng, model)
    except Exception as e:
        return {'error': repr(e)}


if __name__ == '__main__':
    import contracts  # noqa
    pats = sys.argv[1:]
    for q in REGISTRY:
        if not pats or any(p in q for p in pats):
            print(q)
            r = verify(q, verbose=True)
            if r['status'] != 'ok':
                print('   ', r['status'], r.get('reason'))
            else:
                print('    canary_pre=%s paths=%s wall=%ss' % (r['canary_pre'], r['paths'], r['wall']))
