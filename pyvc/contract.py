"""Sidecar contract objects (DESIGN 2.1).  Clause bodies are Python expression
texts in the closed sub-language; the same text is compiled to SMT by
pyvc.engine and evaluated on real objects by rtc.wrappers."""
from __future__ import annotations
from dataclasses import dataclass, field


@dataclass
class LoopSpec:
    inv: dict = field(default_factory=dict)      # clause name -> expr text
    inherited: dict = field(default_factory=dict)  # view contracts: invariant clauses of the main view (assumed, proved there)
    inherited_frame: list = field(default_factory=list)
    index: str = '_i'                              # ghost index for loops over sequences
    done: str = '_done'                            # ghost processed-subset for loops over sets/dicts
    frame: list = field(default_factory=list)      # invariant clauses that are frame equalities on havoced state: assumed with representation
                                                   # equality (the havoced state's representation of untouched entries is ours to choose), proved extensionally
    decreases: str | None = None                   # while loops: integer measure
    assume: dict = field(default_factory=dict)     # axiom instances assumed at the loop head (name -> expr text)


@dataclass
class Contract:
    qual: str                                      # 'pkg.mod:Class.func'
    params: dict                                   # name -> type text (ordered)
    returns: str | None = None
    requires: dict = field(default_factory=dict)
    ensures: dict = field(default_factory=dict)
    raises: dict = field(default_factory=dict)     # exception name -> condition text over the pre-state
    modifies: list = field(default_factory=list)   # locations: 'self.graph', 'jt', ...
    frame_clauses: list = field(default_factory=list)  # ensures clauses that are frame equalities: callers assume them with representation equality
    hints: dict = field(default_factory=dict)      # goal clause name -> labelled hypotheses (clause names) to keep in the first attempt
    cuts: dict = field(default_factory=dict)       # statement-source prefix -> {name: expr}: intermediate assertions (proved, then assumed)
    loops: dict = field(default_factory=dict)      # loop key (header text, '#k' suffix for duplicates) -> LoopSpec
    locals: dict = field(default_factory=dict)     # local name -> type text (for empty literals)
    properties: list = field(default_factory=list)  # property ids this contract serves
    pure: bool = False                             # no side effects (may be called from spec text)
    axiom_clauses: list | None = None               # pure: ensures clauses that go into the global (quantified) axiom; others only at ground call sites
    inline: str | None = None                      # pure and defined by this expression: callers substitute it
    is_property: bool = False                      # @property
    yields: str | None = None                      # generator: set expression of the yielded items
    yield_key: int | str | None = None             # generator of tuples / blocks: the ghost set holds this component / field of each item
    yield_ghost: str | None = None                 # recursive generator: the ghost function naming what the nested call yields
    yield_check: str | None = None                 # obligation on every directly yielded item `it` (text over it and the parameters)
    runtime_ensures: dict = field(default_factory=dict)  # additional postconditions evaluated at run time only (not compiled to SMT)
    known: dict = field(default_factory=dict)      # finding id -> region predicate K (text over pre-state)
    trusted: bool = False                          # contract assumed, body not verified (listed as assumption)
    note: str = ''
    lemmas: dict = field(default_factory=dict)     # extra hypotheses (name -> expr text) proved elsewhere / axioms
    slices: int = 1                                # discharge the obligations of this function in that many parallel tasks
    e1: bool = True                                # False: run-time contract only (tier B function, bounded stand-in)
    runtime: bool = True                           # checked by the E2 wrappers
    gen: str | None = None                         # name of the E2 input generator
    view_of: str | None = None                     # this contract is a second view of the function already contracted under that key: same preconditions
                                                   # (checked), the main view's loop invariants and cut facts are inherited as assumptions and its no-raise /
                                                   # call-pre / frame obligations are not generated again (they are discharged there)
    fuzz_via: list = field(default_factory=list)   # no run-time contract of its own: an undischarged obligation is searched through these callers' contracts
    heap: bool = False                             # heap mode: the block dictionaries of region sub-graphs are state ('$heap' in modifies when written)
    card_mono: list = field(default_factory=list)  # obligation clauses/sites that get monotonicity of card under inclusion (strict for proper inclusion)


REGISTRY: dict = {}


def register(c: Contract):
    assert c.qual not in REGISTRY, c.qual
    REGISTRY[c.qual] = c
    return c


# object classes whose fields are tracked individually
OBJ_CLASSES = {
    'SCFG': {'graph': 'dict[name,block]', 'name_gen': 'NameGenerator', 'region': 'RegionRef'},
    'NameGenerator': {'kinds': 'dict[name,int]'},
    'RegionRef': {'kind': 'name', 'name': 'name'},
    'ConcealedRegionView': {'scfg': 'SCFG'},
    'FlowInfo': {'block_offsets': 'set[int]', 'jump_insts': 'dict[int,list[int]]', 'last_offset': 'int'},
    'WritableASTBlock': {'name': 'name', 'instructions': 'list[node]', 'jump_targets': 'list[name]'},
}
OBJ_MODULE = {
    'SCFG': 'numba_scfg.core.datastructures.scfg',
    'NameGenerator': 'numba_scfg.core.datastructures.scfg',
    'ConcealedRegionView': 'numba_scfg.core.datastructures.scfg',
    'FlowInfo': 'numba_scfg.core.datastructures.flow_info',
    'WritableASTBlock': 'numba_scfg.core.datastructures.ast_transforms',
}
