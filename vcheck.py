#!/usr/bin/env python3
"""vcheck <Cnn> [--tier quick|thorough]   decide one property (DESIGN 2.8)
   vcheck replay <file>                  re-execute a replay file against the real code
   vcheck ledger                         regenerate contracts/LEDGER.json from the current tree
   vcheck all [--tier ...]               every claimed property

exit 0: held on everything explored (UNDECIDED / KNOWN-FINDING lines possible)
exit 1: `VIOLATION property=<id> replay=<path>` printed
exit 3: `CHECKER-ERROR ...` (never a verdict)
"""
from __future__ import annotations
import argparse
import hashlib
import json
import multiprocessing as mp
import os
import sys
import time
import traceback

HERE = os.path.dirname(os.path.abspath(__file__))
os.chdir(HERE)
sys.path.insert(0, HERE)
REPO = os.environ.get('VERIF_REPO', '/repo')
if REPO not in sys.path:
    sys.path.insert(0, REPO)

EVIDENCE_DIR = os.path.join(HERE, 'evidence')
REPLAY_DIR = os.path.join(HERE, 'replays')
CACHE_DIR = os.path.join(HERE, '.cache')
LEDGER = os.path.join(HERE, 'contracts', 'LEDGER.json')
KNOWN = os.path.join(HERE, 'known_findings.json')


_tree = None


def tree_hash():
    global _tree
    if _tree is None:
        _tree = _tree_hash()
    return _tree


def _tree_hash():
    h = hashlib.sha256()
    for root in (os.path.join(REPO, 'numba_scfg'), os.path.join(HERE, 'pyvc'), os.path.join(HERE, 'rtc'),
                 os.path.join(HERE, 'spec'), os.path.join(HERE, 'contracts'), os.path.join(HERE, 'fin')):
        for dp, dn, fn in sorted(os.walk(root)):
            dn.sort()
            if '__pycache__' in dp or '/tests' in dp:
                continue
            for f in sorted(fn):
                if f.endswith('.py'):
                    p = os.path.join(dp, f)
                    h.update(p.encode())
                    with open(p, 'rb') as fh:
                        h.update(fh.read())
    with open(os.path.abspath(__file__), 'rb') as fh:
        h.update(fh.read())
    return h.hexdigest()[:20]


# ---------------------------------------------------------------------------- E1
_skeleton = None


def skeleton_hash():
    """Hash of everything a function's VCs depend on besides its own body: the declaration skeleton of
    every repository module (class headers, fields, method names and decorators, module constants,
    imports - function bodies blanked), the sidecar contracts and the VC generator itself."""
    global _skeleton
    if _skeleton is not None:
        return _skeleton
    import ast
    h = hashlib.sha256()
    for dp, dn, fn in sorted(os.walk(os.path.join(REPO, 'numba_scfg'))):
        dn.sort()
        if '/tests' in dp or '__pycache__' in dp:
            continue
        for f in sorted(fn):
            if not f.endswith('.py'):
                continue
            with open(os.path.join(dp, f)) as fh:
                try:
                    tree = ast.parse(fh.read())
                except SyntaxError:
                    h.update(b'syntax-error')
                    continue
            for n in ast.walk(tree):
                if isinstance(n, (ast.FunctionDef, ast.AsyncFunctionDef)):
                    n.body = [ast.Pass()]
            h.update((os.path.join(dp, f) + ast.dump(tree)).encode())
    # what the VCs read from function bodies other than the function's own: the shapes of generated names
    try:
        from fin.name_lemmas import shapes
        h.update(repr(sorted(shapes().items())).encode())
    except Exception:
        h.update(b'shapes-unreadable')
    for d in ('pyvc', 'contracts'):
        for f in sorted(os.listdir(os.path.join(HERE, d))):
            if f.endswith('.py'):
                with open(os.path.join(HERE, d, f), 'rb') as fh:
                    h.update(fh.read())
    with open(os.path.join(HERE, 'fin', 'name_lemmas.py'), 'rb') as fh:
        h.update(fh.read())
    _skeleton = h.hexdigest()
    return _skeleton


def e1_task(arg):
    import contracts  # noqa
    from pyvc.run import verify
    from pyvc import source as SRC
    qual, part = arg if isinstance(arg, tuple) else (arg, None)
    try:
        # verdict cache: same function text + same skeleton/contracts/generator => same VCs => same verdicts
        m, fn, cls = SRC.find_function(qual)
        key = None
        if fn is not None and os.environ.get('VERIF_NO_CACHE') != '1':
            key = hashlib.sha256((qual + repr(part) + SRC.segment(m, fn) + skeleton_hash()
                                  + os.environ.get('VERIF_SMT_TIMEOUT_MS', '')).encode()).hexdigest()[:24]
            path = os.path.join(CACHE_DIR, 'e1-%s.json' % key)
            if os.path.exists(path):
                with open(path) as fh:
                    r = json.load(fh)
                r['cached'] = True
                return r
        r = verify(qual, timeout_ms=int(os.environ.get('VERIF_SMT_TIMEOUT_MS', '60000')), part=part)
        if key is not None and r['status'] == 'ok':
            os.makedirs(CACHE_DIR, exist_ok=True)
            tmp = path + '.%d.tmp' % os.getpid()
            with open(tmp, 'w') as fh:
                json.dump(r, fh, default=str)
            os.replace(tmp, path)
        return r
    except Exception:
        return {'qual': qual, 'status': 'error', 'reason': traceback.format_exc(), 'obligations': []}


def e1_run(pool, quals):
    """all functions, heavy ones split into parallel slices; results merged per function"""
    import contracts  # noqa
    from pyvc.contract import REGISTRY
    tasks = []
    for q in quals:
        n = max(1, REGISTRY[q].slices)
        tasks += [(q, (k, n)) if n > 1 else (q, None) for k in range(n)]
    # heavy slices first
    order = sorted(range(len(tasks)), key=lambda i: -REGISTRY[tasks[i][0]].slices)
    res = pool.map(e1_task, [tasks[i] for i in order], chunksize=1)
    by = {}
    for r in res:
        q = r['qual']
        if q not in by:
            by[q] = r
        else:
            b = by[q]
            b['obligations'] = b.get('obligations', []) + r.get('obligations', [])
            if r['status'] != 'ok':
                b['status'], b['reason'] = r['status'], r.get('reason')
            b.setdefault('models', {}).update(r.get('models', {}))
            b['canary_pre'] = b.get('canary_pre', True) and r.get('canary_pre', True)
            b['assumptions'] = sorted(set(b.get('assumptions', [])) | set(r.get('assumptions', [])))
            b['wall'] = max(b.get('wall', 0), r.get('wall', 0))
    return [by[q] for q in quals]


def fuzz_task(args):
    qual, n, seed = args
    import contracts  # noqa
    from rtc.fuzz import fuzz
    try:
        # result cache: the generated cases are a function of (contract, n, seed) and the outcome of the trees of /repo and of
        # the checker, so the same key gives the same result (several properties run the contract search of the same function)
        path = None
        if os.environ.get('VERIF_NO_CACHE') != '1':
            key = hashlib.sha256(('%s|%s|%s|%s' % (tree_hash(), qual, n, seed)).encode()).hexdigest()[:24]
            path = os.path.join(CACHE_DIR, 'e2-%s.json' % key)
            if os.path.exists(path):
                with open(path) as fh:
                    r = json.load(fh)
                r['cached'] = True
                return r
        r = fuzz(qual, n, seed)
        if path is not None and not r.get('error'):
            os.makedirs(CACHE_DIR, exist_ok=True)
            tmp = path + '.%d.tmp' % os.getpid()
            with open(tmp, 'w') as fh:
                json.dump(r, fh, default=str)
            os.replace(tmp, path)
        return r
    except Exception:
        return {'qual': qual, 'error': traceback.format_exc(), 'accepted': 0, 'failures': [], 'samples': [], 'tried': 0,
                'known': 0, 'skipped': 0}


def load_known():
    if os.path.exists(KNOWN):
        with open(KNOWN) as fh:
            return json.load(fh)
    return {'findings': [], 'fixed': []}


def load_ledger():
    if os.path.exists(LEDGER):
        with open(LEDGER) as fh:
            return json.load(fh)
    return {}


def write_replay(prop, tag, payload):
    os.makedirs(REPLAY_DIR, exist_ok=True)
    safe = ''.join(ch if ch.isalnum() or ch in '-_.' else '_' for ch in tag)[:120]
    path = os.path.join(REPLAY_DIR, '%s-%s.json' % (prop, safe))
    with open(path, 'w') as fh:
        json.dump(payload, fh, indent=1, default=str)
    return os.path.relpath(path, HERE)


class Verdict:
    def __init__(self, prop):
        self.prop = prop
        self.violations = []     # (replay path, suffix)
        self.undecided = []
        self.known = []
        self.errors = []
        self.lines = []

    def violation(self, replay, suffix=''):
        self.violations.append((replay, suffix))

    def emit(self):
        for u in self.undecided:
            print('UNDECIDED ' + u)
        for k in self.known:
            print('KNOWN-FINDING: property=%s %s' % (self.prop, k))
        for e in self.errors:
            print('CHECKER-ERROR ' + e)
        seen = set()
        for r, sfx in self.violations:
            if r in seen:
                continue
            seen.add(r)
            print(('VIOLATION property=%s replay=%s %s' % (self.prop, r, sfx)).rstrip())

    def code(self):
        if self.errors:
            return 3
        if self.violations:
            return 1
        return 0


# obligations of the proof's own scaffolding (loop invariants, cut lemmas, measures, comprehension side conditions): a refuted
# one says that this proof no longer goes through, not that the function breaks its contract - undecided unless the bounded
# search of the same function finds a failing input.  A refuted contract-level obligation (postcondition, no-raise, callee
# precondition, frame, yielded item) that was discharged on the ledger tree is reported even without an input.
AUX_KINDS = ('cut', 'inv-init', 'inv-step', 'decreases', 'subset')


def run_e1(prop, pool, verdict, tier, seed):
    """Proof part: all contracted functions tagged with the property."""
    import contracts  # noqa
    from pyvc.contract import REGISTRY
    quals = [q for q, c in REGISTRY.items() if prop in c.properties and not c.trusted and c.e1]
    ledger = load_ledger()
    t0 = time.time()
    results = e1_run(pool, quals)
    info = {'functions': [], 'obligations': 0, 'discharged': 0, 'solver_s': 0.0, 'undecided': [], 'assumptions': set(),
            'samples': [], 'max_s': 0.0, 'unproved_termination': []}
    need_fuzz = []
    for r in results:
        q = r['qual']
        fn = {'qual': q, 'status': r['status'], 'sha256': r.get('sha256'), 'obligations': len(r['obligations']),
              'discharged': sum(1 for o in r['obligations'] if o['verdict'] == 'proved')}
        info['functions'].append(fn)
        if r['status'] == 'error':
            verdict.errors.append('pyvc crashed on %s: %s' % (q, r.get('reason', '')[-300:].replace('\n', ' | ')))
            continue
        if r['status'] == 'unsupported':
            info['undecided'].append('%s (%s)' % (q, r.get('reason')))
            verdict.undecided.append('obligation=%s::* reason=function left the verified subset: %s' % (q.split(':')[1], r.get('reason')))
            need_fuzz.append((q, None, None))
            continue
        if not r['obligations']:
            verdict.errors.append('zero obligations generated for %s' % q)
        if not r.get('canary_pre', True):
            verdict.errors.append('contradictory preconditions/axioms for %s (canary proved False)' % q)
        for a in r.get('assumptions', []):
            info['assumptions'].add(a)
        for k in r.get('unproved_termination', []):
            info['unproved_termination'].append('%s: %s' % (q.split(':')[1], k))
        led = ledger.get(q, {})
        names = set()
        for o in r['obligations']:
            names.add(o['name'])
            info['obligations'] += 1
            info['solver_s'] += o['secs']
            info['max_s'] = max(info['max_s'], o['secs'])
            if o['verdict'] == 'proved':
                info['discharged'] += 1
                if len(info['samples']) < 6:
                    info['samples'].append({'obligation': o['name'], 'verdict': 'proved', 'backend': 'z3', 'secs': o['secs']})
            else:
                info['undecided'].append('%s %s %s' % (o['name'], o['verdict'], o.get('why', '')))
                need_fuzz.append((q, o, r.get('models', {}).get(o['name'])))
        missing = set(led) - names
        if led and missing:
            info['undecided'].append('%s: obligations in the ledger no longer generated: %s' % (q, sorted(missing)[:4]))
    info['e1_wall'] = round(time.time() - t0, 1)
    # ---- failed obligations: look for a failing input on the real code
    done_fuzz = {}
    for q, o, model in need_fuzz:
        if q not in done_fuzz:
            n = 3000 if tier == 'quick' else 20000
            via = REGISTRY[q].fuzz_via
            if via:
                # the function has no run-time contract of its own: search through its callers' contracts
                fz = {'qual': q, 'accepted': 0, 'failures': [], 'tried': 0}
                for q2 in via:
                    r2 = fuzz_task((q2, n, seed))
                    fz['accepted'] += r2.get('accepted', 0)
                    if r2.get('failures'):
                        fz['failures'] = r2['failures']
                        fz['via'] = q2
                        break
                done_fuzz[q] = fz
            else:
                done_fuzz[q] = fuzz_task((q, n, seed))
        fz = done_fuzz[q]
        oname = o['name'] if o else q.split(':')[1] + '::*'
        if fz.get('failures'):
            f = fz['failures'][0]
            rp = write_replay(prop, oname, {'kind': 'function-contract', 'property': prop, 'obligation': oname,
                                            'qual': fz.get('via', q), 'args': f['args'], 'observed': f['detail'],
                                            'solver': None if o is None else {'verdict': o['verdict'], 'why': o.get('why')},
                                            'model': model})
            verdict.violation(rp)
        elif o is not None and o['verdict'] == 'sat' and ledger.get(q, {}).get(o['name']) == 'proved' \
                and o.get('kind') not in AUX_KINDS:
            rp = write_replay(prop, oname, {'kind': 'obligation-only', 'property': prop, 'obligation': oname, 'qual': q,
                                            'solver': {'verdict': 'sat', 'model': model},
                                            'note': 'discharged on the ledger tree, refuted now; no failing input found within the bounded search'})
            verdict.violation(rp, 'no-failing-input-found')
        else:
            verdict.undecided.append('obligation=%s reason=%s; bounded contract search on the real function found no failing input (%d cases)'
                                     % (oname, 'solver: ' + (o['verdict'] + ' ' + str(o.get('why', ''))) if o else 'unsupported', fz.get('accepted', 0)))
    info['assumptions'] = sorted(info['assumptions'])
    return info


def run_fuzz(prop, pool, verdict, tier, seed):
    """Bounded stand-in at function level: the same contracts at run time on the real functions."""
    import contracts  # noqa
    from pyvc.contract import REGISTRY
    quals = [q for q, c in REGISTRY.items() if prop in c.properties and c.runtime]
    n = 400 if tier == 'quick' else 5000
    # heap-mode contracts evaluate quantified clauses over whole region hierarchies: a case costs 20-50x a value-mode one
    res = pool.map(fuzz_task, [(q, (n if not REGISTRY[q].heap or tier == 'quick' else 1500), seed) for q in quals], chunksize=1)
    out = {'evaluations': 0, 'functions': len(quals), 'samples': [], 'known_region_cases': 0}
    for r in res:
        if r.get('error'):
            if 'generator for' in r['error'] or 'NotImplementedError' in r['error']:
                continue
            verdict.errors.append('fuzz crashed on %s: %s' % (r['qual'], r['error'][-300:].replace('\n', ' | ')))
            continue
        out['evaluations'] += r['accepted']
        out['known_region_cases'] += r['known']
        if r['samples'] and len(out['samples']) < 3:
            out['samples'].append({'function': r['qual'].split(':')[1], 'args': r['samples'][0]})
        for f in r['failures'][:1]:
            rp = write_replay(prop, r['qual'].split(':')[1] + '-' + str(f['detail'].get('clause')),
                              {'kind': 'function-contract', 'property': prop, 'qual': r['qual'], 'args': f['args'],
                               'observed': f['detail'], 'obligation': '%s::%s' % (r['qual'].split(':')[1], f['detail'].get('clause'))})
            verdict.violation(rp)
    return out


# ---------------------------------------------------------------------------- evidence
def write_evidence(prop, tier, seed, level, coverage, assumptions, wall, violations):
    os.makedirs(EVIDENCE_DIR, exist_ok=True)
    ev = {'property_id': prop, 'tier': tier, 'seed': seed, 'level': level, 'coverage': coverage,
          'assumptions': assumptions, 'wall_s': round(wall, 2), 'violations': violations}
    path = os.path.join(EVIDENCE_DIR, prop + '.json')
    with open(path, 'w') as fh:
        json.dump(ev, fh, indent=1, default=str)
    return path


BASE_ASSUMPTIONS = [
    'pyvc (our VC generator) and z3 5.1 are trusted; an unsat answer is believed',
    'Python semantics assumed by the encoding: str -> uninterpreted totally ordered sort, int -> mathematical integers, '
    'list/tuple -> (array,length), set -> characteristic array (finite), dict -> (domain, values) with arbitrary iteration order, '
    'frozen dataclasses -> one datatype with a class tag; no operator overloading beyond dataclass __eq__; no concurrency',
    'extraction drops docstrings, annotations, typing.cast, _logger.debug(...) calls',
]


def main():
    ap = argparse.ArgumentParser()
    ap.add_argument('what')
    ap.add_argument('arg', nargs='?')
    ap.add_argument('--tier', default=os.environ.get('VERIF_TIER', 'quick'))
    a = ap.parse_args()
    seed = int(os.environ.get('VERIF_SEED', '0'))
    if a.what == 'replay':
        from rtc.replay import replay_file
        sys.exit(replay_file(a.arg))
    if a.what == 'ledger':
        import contracts  # noqa
        from pyvc.contract import REGISTRY
        with mp.Pool(min(16, os.cpu_count() or 1)) as pool:
            res = e1_run(pool, [q for q, c in REGISTRY.items() if not c.trusted and c.e1])
        led = {}
        for r in res:
            led[r['qual']] = {o['name']: o['verdict'] for o in r['obligations']}
            bad = [o for o in r['obligations'] if o['verdict'] != 'proved']
            print(r['qual'], r['status'], len(r['obligations']), 'obligations', len(bad), 'not proved', r.get('reason', ''))
            for o in bad:
                print('    ', o['name'], o['verdict'])
        with open(LEDGER, 'w') as fh:
            json.dump(led, fh, indent=1, sort_keys=True)
        return
    from rtc import properties as P
    props = sorted(P.CHECKS) if a.what == 'all' else [a.what]
    rc = 0
    for prop in props:
        if prop not in P.CHECKS:
            print('CHECKER-ERROR unknown property ' + prop)
            sys.exit(3)
        t0 = time.time()
        verdict = Verdict(prop)
        try:
            with mp.Pool(min(16, os.cpu_count() or 1)) as pool:
                level, coverage, assumptions = P.CHECKS[prop](prop, pool, verdict, a.tier, seed)
        except Exception:
            print('CHECKER-ERROR %s crashed: %s' % (prop, traceback.format_exc()[-1500:]))
            sys.exit(3)
        write_evidence(prop, a.tier, seed, level, coverage, BASE_ASSUMPTIONS + assumptions, time.time() - t0, len(verdict.violations))
        verdict.emit()
        print('%s tier=%s: %s  (%.1fs)' % (prop, a.tier, {0: 'HELD', 1: 'VIOLATION', 3: 'CHECKER-ERROR'}[verdict.code()], time.time() - t0))
        rc = max(rc, verdict.code())
    sys.exit(rc)


if __name__ == '__main__':
    main()
