"""C18 string lemmas, discharged by cvc5 on the real string theory.

The shapes of the three generated names are read from the current source of NameGenerator
(the literal pieces around str(kind) and str(idx)); for these shapes we prove
  L-inj(shape):   shape(k1, d1) = shape(k2, d2)  =>  k1 = k2 and d1 = d2
  L-disj(s, t):   shape_s(k1, d1) != shape_t(k2, d2)        for every pair of different shapes
where d1, d2 range over non-empty digit strings (assumption A-str: str(i) for i >= 0 is such a string
and is injective in i; validated at run time)."""
from __future__ import annotations
import ast
import os
import subprocess
import sys
import tempfile
import time

REPO = os.environ.get('VERIF_REPO', '/repo')
MOD = 'numba_scfg/core/datastructures/scfg.py'
CVC5 = '/usr/bin/cvc5'


def flatten_concat(node):
    if isinstance(node, ast.BinOp) and isinstance(node.op, ast.Add):
        return flatten_concat(node.left) + flatten_concat(node.right)
    return [node]


def shapes():
    """method name -> list of pieces: ('lit', text) | ('kind',) | ('idx',)  (from every `name = ...` assignment)."""
    with open(os.path.join(REPO, MOD)) as fh:
        tree = ast.parse(fh.read())
    out = {}
    for st in tree.body:
        if isinstance(st, ast.ClassDef) and st.name == 'NameGenerator':
            for m in st.body:
                if isinstance(m, ast.FunctionDef) and m.name.startswith('new_'):
                    found = []
                    for n in ast.walk(m):
                        if isinstance(n, ast.Assign) and len(n.targets) == 1 and isinstance(n.targets[0], ast.Name) and n.targets[0].id == 'name':
                            pieces = []
                            for p in flatten_concat(n.value):
                                if isinstance(p, ast.Constant) and isinstance(p.value, str):
                                    pieces.append(('lit', p.value))
                                elif isinstance(p, ast.Call) and getattr(p.func, 'id', '') == 'str' and isinstance(p.args[0], ast.Name):
                                    pieces.append(('kind',) if p.args[0].id == 'kind' else ('idx',) if p.args[0].id == 'idx' else ('other', p.args[0].id))
                                else:
                                    pieces.append(('other', ast.unparse(p)))
                            found.append(tuple(pieces))
                    out[m.name] = found
    return out


def smt_term(pieces, k, d):
    parts = []
    for p in pieces:
        if p[0] == 'lit':
            parts.append('"%s"' % p[1].replace('"', '""'))
        elif p[0] == 'kind':
            parts.append(k)
        elif p[0] == 'idx':
            parts.append(d)
        else:
            return None
    return '(str.++ %s)' % ' '.join(parts) if len(parts) > 1 else parts[0]


HEAD = '''(set-logic ALL)
(declare-const k1 String)(declare-const k2 String)(declare-const d1 String)(declare-const d2 String)
(assert (str.in_re d1 (re.+ (re.range "0" "9"))))
(assert (str.in_re d2 (re.+ (re.range "0" "9"))))
'''


def run_cvc5(text, timeout=60):
    with tempfile.NamedTemporaryFile('w', suffix='.smt2', delete=False) as fh:
        fh.write(text)
        path = fh.name
    t0 = time.time()
    try:
        p = subprocess.run([CVC5, '--strings-exp', '--tlimit=%d' % (timeout * 1000), path], capture_output=True, text=True, timeout=timeout + 10)
        out = (p.stdout + p.stderr).strip().split('\n')[0]
    except subprocess.TimeoutExpired:
        out = 'timeout'
    finally:
        os.unlink(path)
    return out, time.time() - t0


def check():
    sh = shapes()
    obligations, fails, samples = [], [], []
    uniq = {}
    for meth, found in sorted(sh.items()):
        # both branches of a method must build the same shape
        if len(set(found)) != 1:
            fails.append({'obligation': 'NameGenerator.%s::shape-consistent' % meth, 'detail': 'branches build different shapes: %r' % (found,)})
            obligations.append('shape-consistent:' + meth)
            continue
        obligations.append('shape-consistent:' + meth)
        uniq[meth] = found[0]
    for meth, pieces in sorted(uniq.items()):
        a, b = smt_term(pieces, 'k1', 'd1'), smt_term(pieces, 'k2', 'd2')
        name = 'NameGenerator.%s::lemma[injective]' % meth
        obligations.append(name)
        if a is None or ('kind',) not in pieces or ('idx',) not in pieces:
            fails.append({'obligation': name, 'detail': 'shape not of the form lit* kind lit* idx lit*: %r' % (pieces,)})
            continue
        r, dt = run_cvc5(HEAD + '(assert (= %s %s))\n(assert (not (and (= k1 k2) (= d1 d2))))\n(check-sat)\n' % (a, b))
        samples.append({'obligation': name, 'verdict': r, 'backend': 'cvc5 --strings-exp', 'secs': round(dt, 2)})
        if r != 'unsat':
            fails.append({'obligation': name, 'detail': 'cvc5 answered %s for shape %r' % (r, pieces)})
    ms = sorted(uniq)
    for i in range(len(ms)):
        for j in range(i + 1, len(ms)):
            a, b = smt_term(uniq[ms[i]], 'k1', 'd1'), smt_term(uniq[ms[j]], 'k2', 'd2')
            name = 'NameGenerator::lemma[disjoint:%s/%s]' % (ms[i], ms[j])
            obligations.append(name)
            if a is None or b is None:
                fails.append({'obligation': name, 'detail': 'shape not analysable'})
                continue
            r, dt = run_cvc5(HEAD + '(assert (= %s %s))\n(check-sat)\n' % (a, b))
            samples.append({'obligation': name, 'verdict': r, 'backend': 'cvc5 --strings-exp', 'secs': round(dt, 2)})
            if r != 'unsat':
                fails.append({'obligation': name, 'detail': 'cvc5 answered %s' % r})
    # A-str validated on a range (bounded, listed as an assumption)
    strs = [str(i) for i in range(20000)]
    if len(set(strs)) != len(strs) or not all(s.isdigit() and s for s in strs):
        fails.append({'obligation': 'A-str', 'detail': 'str(i) not an injective digit string on 0..19999'})
    return {'obligations': len(obligations), 'discharged': len(obligations) - len(fails), 'failures': fails, 'samples': samples,
            'shapes': {k: [list(p) for p in v] for k, v in uniq.items()}}


if __name__ == '__main__':
    import json
    print(json.dumps(check(), indent=1))
