"""C18 string lemmas, discharged by cvc5 on the real string theory.

The shapes of the three generated names are read from the current source of NameGenerator
(the literal pieces around str(kind) and str(idx)); for these shapes we prove
  L-inj(shape):   shape(k1, d1) = shape(k2, d2)  =>  k1 = k2 and d1 = d2
  L-disj(s, t):   shape_s(k1, d1) != shape_t(k2, d2)        for every pair of different shapes
where d1, d2 range over non-empty digit strings (assumption A-str: str(i) for i >= 0 is such a string
and is injective in i; validated at run time)."""
from __future__ import annotations
import ast
import os
import subprocess
import sys
import tempfile
import time

REPO = os.environ.get('VERIF_REPO', '/repo')
MOD = 'numba_scfg/core/datastructures/scfg.py'
CVC5 = '/usr/bin/cvc5'


def flatten_concat(node):
    if isinstance(node, ast.BinOp) and isinstance(node.op, ast.Add):
        return flatten_concat(node.left) + flatten_concat(node.right)
    return [node]


def _pieces(expr):
    """literal and dynamic pieces of a string-building expression: `+` concatenation, f-strings, str(x)"""
    out = []
    for p in flatten_concat(expr):
        if isinstance(p, ast.Constant) and isinstance(p.value, str):
            out.append(('lit', p.value))
        elif isinstance(p, ast.JoinedStr):
            for v in p.values:
                if isinstance(v, ast.Constant) and isinstance(v.value, str):
                    out.append(('lit', v.value))
                elif isinstance(v, ast.FormattedValue) and v.format_spec is None and v.conversion in (-1, 115):
                    out.append(_dyn(v.value))
                else:
                    out.append(('other', ast.unparse(v)))
        elif isinstance(p, ast.Call) and getattr(p.func, 'id', '') == 'str' and len(p.args) == 1:
            out.append(_dyn(p.args[0]))
        else:
            out.append(('other', ast.unparse(p)))
    # adjacent literals are one literal
    merged = []
    for q in out:
        if q[0] == 'lit' and merged and merged[-1][0] == 'lit':
            merged[-1] = ('lit', merged[-1][1] + q[1])
        elif q != ('lit', ''):
            merged.append(q)
    return tuple(merged)


def _dyn(node):
    """a dynamic piece rendered with str(): the `kind` parameter, or the index (the local `idx`, or any other expression -
    that it is the decimal index of the name is what the run-time contract `result == name(kind, old counter)` checks)"""
    if isinstance(node, ast.Name) and node.id == 'kind':
        return ('kind',)
    return ('idx',)


def shapes():
    """method name -> the shapes of the strings the method can return: pieces ('lit', text) | ('kind',) | ('idx',) | ('other', text),
    read from `name = <expr>` assignments and from `return <expr>` statements that build a string"""
    with open(os.path.join(REPO, MOD)) as fh:
        tree = ast.parse(fh.read())
    out = {}
    for st in tree.body:
        if isinstance(st, ast.ClassDef) and st.name == 'NameGenerator':
            for m in st.body:
                if isinstance(m, ast.FunctionDef) and m.name.startswith('new_'):
                    found = []
                    for n in ast.walk(m):
                        e = None
                        if isinstance(n, ast.Assign) and len(n.targets) == 1 and isinstance(n.targets[0], ast.Name) and n.targets[0].id == 'name':
                            e = n.value
                        elif isinstance(n, ast.Return) and n.value is not None and not isinstance(n.value, ast.Name):
                            e = n.value
                        if e is not None:
                            found.append(_pieces(e))
                    out[m.name] = found
    return out


DEFAULT_SHAPES = {
    'new_block_name': (('kind',), ('lit', '_block_'), ('idx',)),
    'new_region_name': (('kind',), ('lit', '_region_'), ('idx',)),
    'new_var_name': (('lit', '__scfg_'), ('kind',), ('lit', '_var_'), ('idx',), ('lit', '__')),
}


_shape_cache = {}


def shape_of(meth):
    if meth not in _shape_cache:          # the source is read once per process (a run checks one tree)
        _shape_cache[meth] = _shape_of(meth)
    return _shape_cache[meth]


def _shape_of(meth):
    """the shape the spec functions block_name / region_name / var_name stand for: read from the current source when both
    branches of the method build the same analysable shape (literals around one str(kind) and one str(idx), kind first),
    the pinned tree's shape otherwise (the contract then fails, as it should: the generator no longer builds names that way)"""
    try:
        found = set(shapes().get(meth) or [])
    except Exception:
        found = set()
    if len(found) == 1:
        pcs = next(iter(found))
        kinds = [p[0] for p in pcs]
        if kinds.count('kind') == 1 and kinds.count('idx') == 1 and 'other' not in kinds and kinds.index('kind') < kinds.index('idx'):
            return pcs
    return DEFAULT_SHAPES[meth]


def smt_term(pieces, k, d):
    parts = []
    for p in pieces:
        if p[0] == 'lit':
            parts.append('"%s"' % p[1].replace('"', '""'))
        elif p[0] == 'kind':
            parts.append(k)
        elif p[0] == 'idx':
            parts.append(d)
        else:
            return None
    return '(str.++ %s)' % ' '.join(parts) if len(parts) > 1 else parts[0]


HEAD = '''(set-logic ALL)
(declare-const k1 String)(declare-const k2 String)(declare-const d1 String)(declare-const d2 String)
(assert (str.in_re d1 (re.+ (re.range "0" "9"))))
(assert (str.in_re d2 (re.+ (re.range "0" "9"))))
'''


def run_cvc5(text, timeout=60):
    with tempfile.NamedTemporaryFile('w', suffix='.smt2', delete=False) as fh:
        fh.write(text)
        path = fh.name
    t0 = time.time()
    try:
        p = subprocess.run([CVC5, '--strings-exp', '--tlimit=%d' % (timeout * 1000), path], capture_output=True, text=True, timeout=timeout + 10)
        out = (p.stdout + p.stderr).strip().split('\n')[0]
    except subprocess.TimeoutExpired:
        out = 'timeout'
    finally:
        os.unlink(path)
    return out, time.time() - t0


def check():
    sh = shapes()
    obligations, fails, samples, undecided = [], [], [], []
    uniq = {}
    for meth, found in sorted(sh.items()):
        # both branches of a method must build the same shape
        if len(set(found)) != 1 or any(p[0] == 'other' for p in found[0]):
            # the way the method builds its string is outside what this reader understands: undecided (the sampled check
            # below still runs on the real method), never a violation by itself
            undecided.append({'obligation': 'NameGenerator.%s::shape-readable' % meth, 'detail': 'shapes read: %r' % (found,)})
            continue
        obligations.append('shape-consistent:' + meth)
        uniq[meth] = found[0]
    for meth, pieces in sorted(uniq.items()):
        a, b = smt_term(pieces, 'k1', 'd1'), smt_term(pieces, 'k2', 'd2')
        name = 'NameGenerator.%s::lemma[injective]' % meth
        obligations.append(name)
        if a is None or ('kind',) not in pieces or ('idx',) not in pieces:
            fails.append({'obligation': name, 'detail': 'shape not of the form lit* kind lit* idx lit*: %r' % (pieces,)})
            continue
        r, dt = run_cvc5(HEAD + '(assert (= %s %s))\n(assert (not (and (= k1 k2) (= d1 d2))))\n(check-sat)\n' % (a, b))
        samples.append({'obligation': name, 'verdict': r, 'backend': 'cvc5 --strings-exp', 'secs': round(dt, 2)})
        if r != 'unsat':
            fails.append({'obligation': name, 'detail': 'cvc5 answered %s for shape %r' % (r, pieces)})
    ms = sorted(uniq)
    for i in range(len(ms)):
        for j in range(i + 1, len(ms)):
            a, b = smt_term(uniq[ms[i]], 'k1', 'd1'), smt_term(uniq[ms[j]], 'k2', 'd2')
            name = 'NameGenerator::lemma[disjoint:%s/%s]' % (ms[i], ms[j])
            obligations.append(name)
            if a is None or b is None:
                fails.append({'obligation': name, 'detail': 'shape not analysable'})
                continue
            r, dt = run_cvc5(HEAD + '(assert (= %s %s))\n(check-sat)\n' % (a, b))
            samples.append({'obligation': name, 'verdict': r, 'backend': 'cvc5 --strings-exp', 'secs': round(dt, 2)})
            if r != 'unsat':
                fails.append({'obligation': name, 'detail': 'cvc5 answered %s' % r})
    # A-str validated on a range (bounded, listed as an assumption)
    strs = [str(i) for i in range(20000)]
    if len(set(strs)) != len(strs) or not all(s.isdigit() and s for s in strs):
        fails.append({'obligation': 'A-str', 'detail': 'str(i) not an injective digit string on 0..19999'})
    # bounded stand-in on the real methods (always run; the only check when a shape could not be read): names of all three
    # methods over a grid of kinds (incl. kinds that look like generated names) and indices are pairwise different
    try:
        sys.path.insert(0, REPO)
        from numba_scfg.core.datastructures.scfg import NameGenerator
        kinds = ['a', 'b', 'a_block_1', 'x_region_', '__scfg_', 'a_var_0__', '1', '', 'synth_asign', 'control', 'a_block', 'block_1']
        seen = {}
        n_s = 0
        for meth in sorted(sh):
            for k in kinds:
                g = NameGenerator(kinds={})
                for i in range(12):
                    nm = getattr(g, meth)(k)
                    n_s += 1
                    if nm in seen and seen[nm] != (meth, k, i):
                        fails.append({'obligation': 'NameGenerator::sampled-distinct', 'detail': '%r handed out for %r and %r' % (nm, seen[nm], (meth, k, i))})
                    seen[nm] = (meth, k, i)
        samples.append({'obligation': 'NameGenerator::sampled-distinct', 'verdict': 'bounded: %d names pairwise different' % n_s, 'backend': 'execution'})
    except Exception as e:
        undecided.append({'obligation': 'NameGenerator::sampled-distinct', 'detail': 'sampling raised %r' % (e,)})
    return {'obligations': len(obligations), 'discharged': len(obligations) - len(fails), 'failures': fails, 'samples': samples,
            'undecided': undecided, 'shapes': {k: [list(p) for p in v] for k, v in uniq.items()}}


if __name__ == '__main__':
    import json
    print(json.dumps(check(), indent=1))
