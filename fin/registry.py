"""E3 for C15: every concrete block class of basic_block.py against the serialisation registry, and a
per-class round trip of an instance with non-default values in every field (finite, complete over the classes)."""
from __future__ import annotations
import ast
import dataclasses
import os
import sys

REPO = os.environ.get('VERIF_REPO', '/repo')
if REPO not in sys.path:
    sys.path.insert(0, REPO)

NEVER_INSTANTIATED = {'SyntheticBlock'}     # only a base class: no library code constructs it
KNOWN_UNREGISTERED = {'PythonASTBlock'}      # finding R4b: AST payloads cannot be written


def sample_value(f):
    t = str(f.type)
    if f.name in ('name',):
        return 'blk'
    if f.name == '_jump_targets':
        return ('t',)
    if f.name == 'backedges':
        return ()
    if 'Dict[int' in t or 'dict[int' in t:
        return {0: 't', 3: 't'}
    if 'Dict[str' in t or 'dict[str' in t:
        return {'__scfg_v__': 2}
    if t in ('int', "<class 'int'>"):
        return 7
    if t in ('str', "<class 'str'>"):
        return 'v0'
    return None


def check():
    from numba_scfg.core.datastructures import basic_block as bb
    from numba_scfg.core.datastructures.scfg import SCFG
    with open(os.path.join(REPO, 'numba_scfg/core/datastructures/basic_block.py')) as fh:
        tree = ast.parse(fh.read())
    classes = [st.name for st in tree.body if isinstance(st, ast.ClassDef)]
    registered = {c.__name__ for c in bb.block_type_names.values()}
    fails, samples, known = [], [], []
    n = 0
    for cn in classes:
        cls = getattr(bb, cn)
        n += 1
        if cn not in registered:
            if cn in NEVER_INSTANTIATED:
                continue
            if cn in KNOWN_UNREGISTERED:
                known.append(cn)
                continue
            fails.append({'clause': 'registered[%s]' % cn, 'detail': 'class is not a value of block_type_names'})
            continue
        if cn == 'RegionBlock':
            continue   # nested: covered by the bounded round trips of restructured graphs
        n += 1
        kw = {}
        for f in dataclasses.fields(cls):
            v = sample_value(f)
            if v is not None:
                kw[f.name] = v
        inst = cls(**kw)
        g = SCFG({'blk': inst, 't': bb.BasicBlock('t')})
        try:
            d = g.to_dict()
            g2, _ = SCFG.from_dict(d)
            back = g2.graph['blk']
            if type(back) is not cls or back != inst:
                fails.append({'clause': 'roundtrip[%s]' % cn, 'detail': 'read back %r, wrote %r' % (back, inst)})
            elif g2.to_dict() != d:
                fails.append({'clause': 'rewrite[%s]' % cn, 'detail': 'second dictionary differs'})
            elif len(samples) < 4:
                samples.append({'class': cn, 'written': d['blocks']['blk']})
        except Exception as e:
            fails.append({'clause': 'roundtrip[%s]' % cn, 'detail': 'raised %r' % (e,)})
    return {'domain': 'every class defined in basic_block.py (%d: %s)' % (len(classes), ', '.join(classes)),
            'obligations': n, 'discharged': n - len(fails), 'failures': fails, 'samples': samples, 'known_unregistered': known}


if __name__ == '__main__':
    import json
    print(json.dumps(check(), indent=1, default=str)[:2500])
