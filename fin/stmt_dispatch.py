"""E3 for C11: the statement dispatcher against every statement class of the running interpreter.

(i)  structure, read from the source: handle_ast_node is an if/elif chain of isinstance(node, <classes>)
     tests ending in `raise NotImplementedError`; with the real class lattice this decides, for every
     subclass T of ast.stmt, which arm T reaches (a loop-free, full-domain case split).
(ii) structural descent: every statement-list field of a compound node is handed to self.codegen
     unconditionally by its handler.
(iii) the same statement classes executed on the real dispatcher."""
from __future__ import annotations
import ast
import os
import sys

REPO = os.environ.get('VERIF_REPO', '/repo')
if REPO not in sys.path:
    sys.path.insert(0, REPO)

SUPPORTED = {'Assign', 'AugAssign', 'Expr', 'Return', 'Pass', 'Break', 'Continue', 'If', 'While', 'For'}
STMT_LIST_FIELDS = {'If': ['body', 'orelse'], 'While': ['body', 'orelse'], 'For': ['body', 'orelse'], 'FunctionDef': ['body']}
MOD = 'numba_scfg/core/datastructures/ast_transforms.py'


def stmt_classes():
    out = []
    for n in dir(ast):
        o = getattr(ast, n)
        if isinstance(o, type) and issubclass(o, ast.stmt) and o is not ast.stmt:
            out.append(o)
    return sorted(out, key=lambda c: c.__name__)


def find_method(tree, cls, name):
    for st in tree.body:
        if isinstance(st, ast.ClassDef) and st.name == cls:
            for m in st.body:
                if isinstance(m, ast.FunctionDef) and m.name == name:
                    return m
    return None


def dispatch_arms(fn):
    """[(set of accepted class names, handler description)] and whether the chain ends in raise NotImplementedError."""
    body = [s for s in fn.body if not (isinstance(s, ast.Expr) and isinstance(s.value, ast.Constant))]
    if len(body) != 1 or not isinstance(body[0], ast.If):
        return None, 'body is not a single if-chain'
    arms = []
    node = body[0]
    while True:
        t = node.test
        if not (isinstance(t, ast.Call) and isinstance(t.func, ast.Name) and t.func.id == 'isinstance'
                and isinstance(t.args[0], ast.Name) and t.args[0].id == 'node'):
            return None, 'test is not isinstance(node, ...): ' + ast.unparse(t)
        c = t.args[1]
        elts = c.elts if isinstance(c, ast.Tuple) else [c]
        names = set()
        for e in elts:
            if not (isinstance(e, ast.Attribute) and isinstance(e.value, ast.Name) and e.value.id == 'ast'):
                return None, 'class is not ast.<Name>: ' + ast.unparse(e)
            names.add(e.attr)
        arms.append((names, ast.unparse(node.body[0])[:60]))
        if len(node.orelse) == 1 and isinstance(node.orelse[0], ast.If):
            node = node.orelse[0]
            continue
        final = node.orelse
        ok = (len(final) == 1 and isinstance(final[0], ast.Raise) and isinstance(final[0].exc, ast.Call)
              and getattr(final[0].exc.func, 'id', None) == 'NotImplementedError')
        return arms, None if ok else 'chain does not end in raise NotImplementedError'


def check():
    fails, samples = [], []
    n = 0
    with open(os.path.join(REPO, MOD)) as fh:
        tree = ast.parse(fh.read())
    fn = find_method(tree, 'AST2SCFGTransformer', 'handle_ast_node')
    if fn is None:
        return {'obligations': 1, 'discharged': 0, 'failures': [{'clause': 'structure', 'detail': 'handle_ast_node not found'}], 'samples': [], 'domain': ''}
    arms, err = dispatch_arms(fn)
    undecided = []
    classes = stmt_classes()
    if arms is None or err:
        # the dispatcher is no longer an isinstance chain: the static case split cannot be read off the source;
        # the dynamic part (iii) below still runs the real dispatcher on a node of every class
        undecided.append('handle_ast_node::structure: ' + str(err))
        arms = None
    # (i) per statement class: which arm does it reach, by the real class lattice
    for T in (classes if arms is not None else []):
        n += 1
        reached = None
        for names, what in arms:
            if any(issubclass(T, getattr(ast, a)) for a in names if hasattr(ast, a)):
                reached = what
                break
        accepted = reached is not None
        if T.__name__ in SUPPORTED:
            if not accepted:
                fails.append({'clause': 'dispatch[%s]' % T.__name__, 'detail': 'supported statement is refused'})
        else:
            if accepted:
                fails.append({'clause': 'dispatch[%s]' % T.__name__, 'detail': 'unsupported statement reaches arm: ' + reached})
        if len(samples) < 6:
            samples.append({'stmt_class': T.__name__, 'arm': reached or 'raise NotImplementedError'})
    # (ii) structural descent
    for cls, fields in STMT_LIST_FIELDS.items():
        hname = {'If': 'handle_if', 'While': 'handle_while', 'For': 'handle_for', 'FunctionDef': 'handle_function_def'}[cls]
        h = find_method(tree, 'AST2SCFGTransformer', hname)
        for f in fields:
            n += 1
            ok = False
            if h is not None:
                for st in h.body:
                    if isinstance(st, ast.Expr) and isinstance(st.value, ast.Call) and ast.unparse(st.value) == 'self.codegen(node.%s)' % f:
                        ok = True
            if not ok:
                undecided.append('descent[%s.%s]: no unconditional self.codegen(node.%s) found in %s (placement matrix decides)' % (cls, f, f, hname))
    cg = find_method(tree, 'AST2SCFGTransformer', 'codegen')
    n += 1
    if cg is None or not any(isinstance(st, ast.For) and ast.unparse(st) == 'for node in tree:\n    self.handle_ast_node(node)' for st in cg.body):
        undecided.append('descent[codegen]: codegen is not the plain loop over the statement list (placement matrix decides)')
    # (iii) the real dispatcher on a node of every class
    from numba_scfg.core.datastructures.ast_transforms import AST2SCFGTransformer
    for T in classes:
        if T.__name__ in SUPPORTED:
            continue
        n += 1
        tr = AST2SCFGTransformer('def f():\n    pass\n')
        before = [(k, list(b.instructions), list(b.jump_targets)) for k, b in tr.blocks.items()]
        try:
            node = T()
            for fld in getattr(T, '_fields', ()):
                if fld in ('body', 'orelse', 'finalbody', 'handlers', 'cases', 'names', 'targets', 'items', 'decorator_list', 'type_params', 'bases', 'keywords'):
                    setattr(node, fld, [])
            tr.handle_ast_node(node)
            fails.append({'clause': 'refuse[%s]' % T.__name__, 'detail': 'no exception'})
        except NotImplementedError:
            after = [(k, list(b.instructions), list(b.jump_targets)) for k, b in tr.blocks.items()]
            if after != before:
                fails.append({'clause': 'refuse[%s]' % T.__name__, 'detail': 'blocks changed before refusing'})
        except Exception as e:
            fails.append({'clause': 'refuse[%s]' % T.__name__, 'detail': 'raised %r instead of NotImplementedError' % (e,)})
    return {'domain': 'every subclass of ast.stmt of the running interpreter (%d classes: %s)' % (len(classes), ', '.join(c.__name__ for c in classes)),
            'obligations': n, 'discharged': n - len(fails) - len(undecided), 'failures': fails, 'samples': samples, 'python': sys.version.split()[0],
            'undecided': undecided}


if __name__ == '__main__':
    import json
    print(json.dumps(check(), indent=1)[:3000])
