"""E3 for C09: the library's opcode classification against the running interpreter's own
metadata, for every real opcode (a complete, loop-free case split = a proof for this interpreter)."""
from __future__ import annotations
import dis
import opcode
import os
import re
import sys

REPO = os.environ.get('VERIF_REPO', '/repo')
if REPO not in sys.path:
    sys.path.insert(0, REPO)

UNCOND_RE = re.compile(r'^JUMP_(FORWARD|BACKWARD|ABSOLUTE)(_NO_INTERRUPT)?$')
RETURNING = {'RETURN_VALUE', 'RETURN_CONST'}
# only occur with exception tables, raises or generator suspension: outside the property's domain
OUT_OF_DOMAIN = {'SEND', 'RERAISE', 'RAISE_VARARGS', 'RETURN_GENERATOR', 'YIELD_VALUE', 'END_ASYNC_FOR',
                 'CLEANUP_THROW', 'JUMP_BACKWARD_NO_INTERRUPT', 'GET_AWAITABLE', 'GET_AITER', 'GET_ANEXT',
                 'BEFORE_ASYNC_WITH', 'BEFORE_WITH', 'WITH_EXCEPT_START', 'PUSH_EXC_INFO', 'POP_EXCEPT', 'CHECK_EXC_MATCH',
                 'CHECK_EG_MATCH', 'END_SEND', 'YIELD_FROM', 'SETUP_FINALLY', 'SETUP_WITH', 'SETUP_CLEANUP', 'POP_BLOCK',
                 'JUMP_IF_NOT_EXC_MATCH', 'GEN_START', 'ASYNC_GEN_WRAP', 'SETUP_ASYNC_WITH'}


def real_opcodes():
    return {name: op for name, op in dis.opmap.items() if op < 256 and not name.startswith('INSTRUMENTED_')}


def ground_truth(name, op):
    jump = op in dis.hasjrel or op in dis.hasjabs
    if name in RETURNING:
        return 'returning'
    if jump and UNCOND_RE.match(name):
        return 'unconditional'
    if jump:
        return 'conditional'
    return 'other'


def cache_entries(name):
    tbl = getattr(opcode, '_inline_cache_entries', None)
    if tbl is None:
        return 0
    if isinstance(tbl, dict):
        return tbl.get(name, 0)
    return tbl[dis.opmap[name]]


def library_class(name):
    from numba_scfg.core import utils
    c = utils.is_conditional_jump(name)
    u = utils.is_unconditional_jump(name)
    r = utils.is_exiting(name)
    if c + u + r > 1:
        return 'ambiguous'
    return 'conditional' if c else 'unconditional' if u else 'returning' if r else 'other'


def check():
    """Returns dict(domain, obligations, discharged, failures=[...], samples)."""
    fails, rows = [], []
    ops = real_opcodes()
    n = 0
    for name, op in sorted(ops.items()):
        if name in OUT_OF_DOMAIN:
            continue
        want = ground_truth(name, op)
        got = library_class(name)
        n += 1
        ok = want == got
        rows.append({'opname': name, 'interpreter': want, 'library': got})
        if not ok:
            fails.append({'opname': name, 'interpreter': want, 'library': got, 'clause': 'class'})
        # unconditional / returning opcodes must not be followed by inline cache slots (the library's
        # `term_offset = end - 2` lookup relies on it); conditional ones may
        if want in ('unconditional', 'returning'):
            n += 1
            if cache_entries(name) != 0:
                fails.append({'opname': name, 'clause': 'no-inline-cache', 'cache_entries': cache_entries(name)})
    return {'domain': 'every real opcode of dis.opmap (%d) minus %d that only occur with exception tables / generators' % (len(ops), len([o for o in ops if o in OUT_OF_DOMAIN])),
            'python': sys.version.split()[0], 'obligations': n, 'discharged': n - len(fails), 'failures': fails,
            'samples': [r for r in rows if r['interpreter'] != 'other'][:12]}


if __name__ == '__main__':
    import json
    print(json.dumps(check(), indent=1))
